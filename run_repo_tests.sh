#!/bin/bash
# Runs the repository's own suite with the hooks guard OFF (default features) and prints pass/fail counts.
cd /repo || exit 2
export CARGO_NET_OFFLINE=true
if cargo nextest --version >/dev/null 2>&1; then
  cargo nextest run --workspace --no-fail-fast --test-threads 8 --offline 2>&1 | tail -15
else
  cargo test --workspace --no-fail-fast --offline 2>&1 | grep -E "^test result|FAILED|failed" | tail -40
fi
