//! Instrumented compaction filter (C17): answers from a verdict table and logs what it was shown.

use lsm_tree::compaction::{CompactionFilter, ItemAccessor, Verdict};
use serde::{Deserialize, Serialize};
use std::sync::{Arc, Mutex};

#[derive(Clone, Copy, Debug, PartialEq, Eq, Hash, Serialize, Deserialize)]
pub enum VerdictSpec {
    Keep,
    Remove,
    RemoveWeak,
    ReplaceSmall,
    ReplaceBig,
    Destroy,
}

pub const ALL_VERDICTS: [VerdictSpec; 6] = [
    VerdictSpec::Keep,
    VerdictSpec::Remove,
    VerdictSpec::RemoveWeak,
    VerdictSpec::ReplaceSmall,
    VerdictSpec::ReplaceBig,
    VerdictSpec::Destroy,
];

#[derive(Clone, Debug)]
pub struct Shown {
    pub key: Vec<u8>,
    /// Ok(value) or Err(message) if value() failed / panicked
    pub value: Result<Vec<u8>, String>,
    pub verdict: VerdictSpec,
    pub replacement: Option<Vec<u8>>,
    pub is_last_level: bool,
    /// index of the compaction (make_filter call) this belongs to
    pub run: usize,
}

#[derive(Default)]
pub struct FilterLog {
    pub shown: Mutex<Vec<Shown>>,
    pub runs: Mutex<usize>,
    pub finished: Mutex<usize>,
    pub mid_snaps: Mutex<Vec<u64>>,
    /// writes the in-filter client performed: (key, value, seqno)
    pub mid_writes: Mutex<Vec<(Vec<u8>, Vec<u8>, u64)>>,
    /// the tree, once it is open (the factory is built before the tree exists)
    pub tree: Mutex<Option<lsm_tree::AnyTree>>,
}

pub struct Factory {
    keys: Vec<Vec<u8>>,
    verdicts: Vec<VerdictSpec>,
    log: Arc<FilterLog>,
    mid: Option<(lsm_tree::SequenceNumberCounter, lsm_tree::SequenceNumberCounter)>,
}

impl Factory {
    pub fn new(
        keys: Vec<Vec<u8>>,
        verdicts: Vec<VerdictSpec>,
        log: Arc<FilterLog>,
        mid: Option<(lsm_tree::SequenceNumberCounter, lsm_tree::SequenceNumberCounter)>,
    ) -> Self {
        Self {
            keys,
            verdicts,
            log,
            mid,
        }
    }
}

impl std::panic::RefUnwindSafe for Factory {}

impl lsm_tree::compaction::Factory for Factory {
    fn name(&self) -> &str {
        "verif"
    }

    fn make_filter(
        &self,
        _ctx: &lsm_tree::compaction::filter::Context,
    ) -> Box<dyn CompactionFilter> {
        let mut r = self.log.runs.lock().unwrap();
        *r += 1;
        Box::new(Filter {
            keys: self.keys.clone(),
            verdicts: self.verdicts.clone(),
            log: self.log.clone(),
            run: *r,
            mid: self.mid.clone(),
            first: true,
        })
    }
}

struct Filter {
    keys: Vec<Vec<u8>>,
    verdicts: Vec<VerdictSpec>,
    log: Arc<FilterLog>,
    run: usize,
    mid: Option<(lsm_tree::SequenceNumberCounter, lsm_tree::SequenceNumberCounter)>,
    first: bool,
}

impl CompactionFilter for Filter {
    fn filter_item(
        &mut self,
        item: ItemAccessor<'_>,
        ctx: &lsm_tree::compaction::filter::Context,
    ) -> lsm_tree::Result<Verdict> {
        if self.first {
            self.first = false;
            if let Some((seqno, vis)) = &self.mid {
                // a concurrent client writes one key, publishes it, and opens a snapshot while
                // this compaction is running (the merge loop holds no tree lock)
                use lsm_tree::AbstractTree;
                if let Some(t) = self.log.tree.lock().unwrap().as_ref() {
                    let s = seqno.next();
                    let key = self.keys.last().cloned().unwrap_or_default();
                    let val = crate::driver::small_value(b'm', s);
                    let _ = t.insert(key.clone(), val.clone(), s);
                    vis.fetch_max(s + 1);
                    self.log.mid_writes.lock().unwrap().push((key, val, s));
                }
                self.log.mid_snaps.lock().unwrap().push(vis.get());
            }
        }
        let key = item.key().to_vec();
        // value() is unreachable!() on tombstones: catch that as an observation, not a crash
        let value = match std::panic::catch_unwind(std::panic::AssertUnwindSafe(|| item.value())) {
            Ok(Ok(v)) => Ok(v.to_vec()),
            Ok(Err(e)) => Err(format!("value() error: {e:?}")),
            Err(_) => Err("value() panicked (tombstone shown to filter?)".to_string()),
        };
        let idx = self.keys.iter().position(|k| *k == key);
        let spec = idx
            .and_then(|i| self.verdicts.get(i).copied())
            .unwrap_or(VerdictSpec::Keep);
        let n = self.log.shown.lock().unwrap().len() as u64 + 1;
        let (verdict, replacement) = match spec {
            VerdictSpec::Keep => (Verdict::Keep, None),
            VerdictSpec::Remove => (Verdict::Remove, None),
            VerdictSpec::RemoveWeak => (Verdict::RemoveWeak, None),
            VerdictSpec::Destroy => (Verdict::Destroy, None),
            VerdictSpec::ReplaceSmall => {
                let v = crate::driver::small_value(b'r', n);
                (Verdict::ReplaceValue(v.clone().into()), Some(v))
            }
            VerdictSpec::ReplaceBig => {
                let v = crate::driver::big_value(b'r', n);
                (Verdict::ReplaceValue(v.clone().into()), Some(v))
            }
        };
        self.log.shown.lock().unwrap().push(Shown {
            key,
            value,
            verdict: spec,
            replacement,
            is_last_level: ctx.is_last_level,
            run: self.run,
        });
        Ok(verdict)
    }

    fn finish(self: Box<Self>) {
        *self.log.finished.lock().unwrap() += 1;
    }
}
