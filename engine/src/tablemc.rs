//! `tablemc`: every small sorted multi-version item stream x every writer setting, written by the
//! real `table::Writer`, recovered by `Table::recover`, probed through every read path (C12).

use crate::oracles::{vt_code, Item};
use lsm_tree::{
    config::BloomConstructionPolicy, table::Writer, Cache, DescriptorTable, InternalValue, SeqNo,
    Table, ValueType,
};
use serde::{Deserialize, Serialize};
use std::ops::Bound;
use std::path::{Path, PathBuf};
use std::sync::atomic::{AtomicBool, AtomicU64, Ordering};
use std::sync::{Arc, Mutex};

#[derive(Clone, Copy, Debug, Serialize, Deserialize, PartialEq)]
pub enum FilterMode {
    Off,
    Full,
    Partitioned,
}

#[derive(Clone, Copy, Debug, Serialize, Deserialize, PartialEq)]
pub struct Setting {
    pub block_size: u32,
    pub restart: u8,
    pub hash_ratio: f32,
    pub index_partitioned: bool,
    pub filter: FilterMode,
    pub partition_size: u32,
    #[serde(default)]
    pub lz4: bool,
}

#[derive(Clone, Copy, Debug, Serialize, Deserialize, PartialEq)]
pub struct Recover {
    pub pin_filter: bool,
    pub pin_index: bool,
    pub global_seqno: u64,
    pub fd_table: bool,
}

#[derive(Clone, Debug, Serialize, Deserialize, PartialEq, Eq)]
pub struct Entry {
    pub key: Vec<u8>,
    pub seqno: u64,
    /// 0 value, 1 tombstone, 2 weak tombstone, 3 indirection
    pub vt: u8,
    pub value: Vec<u8>,
}

#[derive(Clone, Debug, Serialize, Deserialize)]
pub struct Case {
    pub engine: String,
    pub property: String,
    pub stream: Vec<Entry>,
    pub setting: Setting,
    pub recover: Recover,
    pub sig: String,
    pub msg: String,
}

pub fn settings() -> Vec<Setting> {
    let mut v = vec![];
    for block_size in [1u32, 32, 4096] {
        for restart in [1u8, 2, 16] {
            for hash_ratio in [0.0f32, 8.0] {
                for index_partitioned in [false, true] {
                    for filter in [FilterMode::Off, FilterMode::Full, FilterMode::Partitioned] {
                        for partition_size in [1u32, 4096] {
                            for lz4 in [false, true] {
                                // compressed variants only with the large partition size (keeps the product in check)
                                if lz4 && partition_size == 1 {
                                    continue;
                                }
                                v.push(Setting {
                                    block_size,
                                    restart,
                                    hash_ratio,
                                    index_partitioned,
                                    filter,
                                    partition_size,
                                    lz4,
                                });
                            }
                        }
                    }
                }
            }
        }
    }
    v
}

fn vt_of(code: u8) -> ValueType {
    match code {
        0 => ValueType::Value,
        1 => ValueType::Tombstone,
        2 => ValueType::WeakTombstone,
        _ => ValueType::Indirection,
    }
}

/// value bytes for an entry; `pattern`: 0 all empty, 1 all 3 bytes, 2 first value larger than a block
fn value_for(vt: u8, idx: usize, pattern: u8) -> Vec<u8> {
    if vt == 1 || vt == 2 {
        return vec![];
    }
    let base: Vec<u8> = match pattern {
        0 => vec![],
        1 => format!("v{idx:02}").into_bytes(),
        _ => {
            if idx == 0 {
                vec![b'L'; 5000]
            } else {
                format!("v{idx:02}").into_bytes()
            }
        }
    };
    if vt == 3 {
        // an indirection's payload is opaque to the table; make it distinguishable
        let mut v = b"PTR:".to_vec();
        v.extend(base);
        v
    } else {
        base
    }
}

/// all strictly ordered streams of 1..=max_len entries over grid keys x seqnos with every type
pub fn grid_streams(max_len: usize, types: &[u8], patterns: &[u8]) -> Vec<Vec<Entry>> {
    let keys: [&[u8]; 3] = [b"a", b"ab", b"b"];
    let seqnos = [5u64, 1, 0]; // descending: table order is key asc, seqno desc
    let mut cells = vec![];
    for k in keys {
        for s in seqnos {
            cells.push((k.to_vec(), s));
        }
    }
    let mut out = vec![];
    let n = cells.len();
    // subsets in order (cells are already in table order)
    fn rec(
        cells: &[(Vec<u8>, u64)],
        start: usize,
        cur: &mut Vec<usize>,
        max_len: usize,
        acc: &mut Vec<Vec<usize>>,
    ) {
        if !cur.is_empty() {
            acc.push(cur.clone());
        }
        if cur.len() == max_len {
            return;
        }
        for i in start..cells.len() {
            cur.push(i);
            rec(cells, i + 1, cur, max_len, acc);
            cur.pop();
        }
    }
    let mut subsets = vec![];
    rec(&cells, 0, &mut vec![], max_len, &mut subsets);
    let _ = n;
    for sub in subsets {
        // every assignment of types
        let m = sub.len();
        let total = types.len().pow(m as u32);
        for code in 0..total {
            let mut c = code;
            let mut tys = vec![];
            for _ in 0..m {
                tys.push(types[c % types.len()]);
                c /= types.len();
            }
            for &p in patterns {
                let stream: Vec<Entry> = sub
                    .iter()
                    .enumerate()
                    .map(|(i, &ci)| Entry {
                        key: cells[ci].0.clone(),
                        seqno: cells[ci].1,
                        vt: tys[i],
                        value: value_for(tys[i], i, p),
                    })
                    .collect();
                out.push(stream);
            }
        }
    }
    out
}

/// streams of 4..=5 entries over 2 keys x 3 seqnos with types {Value, Tombstone}
pub fn deep_streams() -> Vec<Vec<Entry>> {
    let keys: [&[u8]; 2] = [b"a", b"ab"];
    let seqnos = [5u64, 1, 0];
    let mut cells = vec![];
    for k in keys {
        for s in seqnos {
            cells.push((k.to_vec(), s));
        }
    }
    let mut out = vec![];
    for mask in 0u32..(1 << cells.len()) {
        let n = mask.count_ones() as usize;
        if !(4..=5).contains(&n) {
            continue;
        }
        let sub: Vec<usize> = (0..cells.len()).filter(|i| mask & (1 << i) != 0).collect();
        for code in 0..(1u32 << n) {
            let stream: Vec<Entry> = sub
                .iter()
                .enumerate()
                .map(|(i, &ci)| {
                    let vt = ((code >> i) & 1) as u8;
                    Entry {
                        key: cells[ci].0.clone(),
                        seqno: cells[ci].1,
                        vt,
                        value: value_for(vt, i, 1),
                    }
                })
                .collect();
            out.push(stream);
        }
    }
    out
}

pub fn adversarial_streams() -> Vec<Vec<Entry>> {
    let mut out = vec![];
    // long shared prefixes
    let p = vec![b'p'; 30];
    let mut s = vec![];
    for suffix in [&b""[..], b"\x00", b"a", b"a\xff", b"a\xff\xff", b"b"] {
        let mut k = p.clone();
        k.extend_from_slice(suffix);
        s.push(Entry {
            key: k,
            seqno: 3,
            vt: 0,
            value: b"x".to_vec(),
        });
    }
    out.push(s);
    // 0xFF-terminated keys
    out.push(
        [&b"ab"[..], b"ab\xff", b"ab\xff\xff", b"ac"]
            .iter()
            .enumerate()
            .map(|(i, k)| Entry {
                key: k.to_vec(),
                seqno: i as u64,
                vt: 0,
                value: format!("v{i}").into_bytes(),
            })
            .collect(),
    );
    // one key with 6 versions spanning blocks, between two other keys
    let mut s = vec![Entry {
        key: b"a".to_vec(),
        seqno: 9,
        vt: 0,
        value: b"first".to_vec(),
    }];
    for sq in (0..6u64).rev() {
        s.push(Entry {
            key: b"k".to_vec(),
            seqno: sq + 1,
            vt: if sq == 3 { 1 } else { 0 },
            value: if sq == 3 { vec![] } else { vec![b'0' + sq as u8; 40] },
        });
    }
    s.push(Entry {
        key: b"z".to_vec(),
        seqno: 2,
        vt: 2,
        value: vec![],
    });
    out.push(s);
    // 40 entries
    out.push(
        (0..40u32)
            .map(|i| Entry {
                key: format!("key{:03}", i / 2).into_bytes(),
                seqno: if i % 2 == 0 { 7 } else { 2 },
                vt: if i % 7 == 3 { 1 } else { 0 },
                value: if i % 7 == 3 {
                    vec![]
                } else {
                    format!("value-{i}").into_bytes()
                },
            })
            .collect(),
    );
    // a 70 KiB value
    out.push(vec![
        Entry {
            key: b"a".to_vec(),
            seqno: 1,
            vt: 0,
            value: b"small".to_vec(),
        },
        Entry {
            key: b"b".to_vec(),
            seqno: 1,
            vt: 0,
            value: vec![b'B'; 70 * 1024],
        },
        Entry {
            key: b"c".to_vec(),
            seqno: 1,
            vt: 1,
            value: vec![],
        },
    ]);
    // many tiny entries: one data block with far more than 254 restart points (restart interval 1-2)
    out.push(
        (0..700u32)
            .map(|i| Entry {
                key: format!("{i:04}").into_bytes(),
                seqno: u64::from(i % 3),
                vt: if i % 50 == 7 { 1 } else { 0 },
                value: if i % 50 == 7 { vec![] } else { vec![b'a' + (i % 26) as u8] },
            })
            .collect(),
    );
    // the same shape with two versions per key
    out.push(
        (0..600u32)
            .map(|i| Entry {
                key: format!("{:04}", i / 2).into_bytes(),
                seqno: if i % 2 == 0 { 9 } else { 4 },
                vt: 0,
                value: vec![b'a' + (i % 26) as u8],
            })
            .collect(),
    );
    // empty key and single-byte extremes
    out.push(vec![
        Entry {
            key: b"\x00".to_vec(),
            seqno: 4,
            vt: 0,
            value: b"z".to_vec(),
        },
        Entry {
            key: b"\x00\x00".to_vec(),
            seqno: 4,
            vt: 0,
            value: b"zz".to_vec(),
        },
        Entry {
            key: b"\xff".to_vec(),
            seqno: 4,
            vt: 0,
            value: b"f".to_vec(),
        },
        Entry {
            key: b"\xff\xff".to_vec(),
            seqno: 4,
            vt: 3,
            value: b"PTR:ff".to_vec(),
        },
    ]);
    out
}

static NEXT_ID: AtomicU64 = AtomicU64::new(1);

pub struct Ctx {
    pub dir: PathBuf,
    pub cache: Arc<Cache>,
    pub fdt: Arc<DescriptorTable>,
}

pub fn write_table(ctx: &Ctx, stream: &[Entry], st: &Setting) -> Result<(PathBuf, u64, lsm_tree::Checksum), String> {
    let id = NEXT_ID.fetch_add(1, Ordering::Relaxed);
    let path = ctx.dir.join(id.to_string());
    let _ = std::fs::remove_file(&path);
    let mut w = Writer::new(path.clone(), id, 0).map_err(|e| format!("Writer::new: {e:?}"))?;
    if st.index_partitioned {
        w = w.use_partitioned_index();
    }
    if st.filter == FilterMode::Partitioned {
        w = w.use_partitioned_filter();
    }
    w = w
        .use_meta_partition_size(st.partition_size)
        .use_data_block_size(st.block_size)
        .use_data_block_restart_interval(st.restart)
        .use_data_block_hash_ratio(st.hash_ratio)
        .use_data_block_compression(if st.lz4 { lsm_tree::CompressionType::Lz4 } else { lsm_tree::CompressionType::None })
        .use_index_block_compression(if st.lz4 { lsm_tree::CompressionType::Lz4 } else { lsm_tree::CompressionType::None })
        .use_bloom_policy(match st.filter {
            FilterMode::Off => BloomConstructionPolicy::BitsPerKey(0.0),
            _ => BloomConstructionPolicy::BitsPerKey(10.0),
        });
    for e in stream {
        w.write(InternalValue::from_components(
            e.key.clone(),
            e.value.clone(),
            e.seqno,
            vt_of(e.vt),
        ))
        .map_err(|x| format!("Writer::write: {x:?}"))?;
    }
    match w.finish().map_err(|x| format!("Writer::finish: {x:?}"))? {
        Some((tid, cs)) => Ok((path, tid, cs)),
        None => Err("Writer::finish returned None for a non-empty stream".into()),
    }
}

fn to_item(e: &Entry, g: u64) -> Item {
    Item {
        key: e.key.clone(),
        seqno: e.seqno + g,
        vt: e.vt,
        value: e.value.clone(),
    }
}

fn conv(x: lsm_tree::Result<InternalValue>) -> Result<Item, String> {
    let it = x.map_err(|e| format!("{e:?}"))?;
    Ok(Item {
        key: it.key.user_key.to_vec(),
        seqno: it.key.seqno,
        vt: vt_code(it.key.value_type),
        value: it.value.to_vec(),
    })
}

/// probe points for range bounds: below the first key, every key, a gap after every key
fn probe_points(stream: &[Entry]) -> Vec<Vec<u8>> {
    let mut keys: Vec<Vec<u8>> = stream.iter().map(|e| e.key.clone()).collect();
    keys.dedup();
    let mut pts: Vec<Vec<u8>> = vec![vec![]];
    for k in &keys {
        pts.push(k.clone());
        let mut g = k.clone();
        g.push(0);
        pts.push(g);
    }
    pts.sort();
    pts.dedup();
    if keys.len() > 50 {
        // bulk streams: three probe points keep the bound enumeration proportionate
        let n = pts.len();
        return vec![pts[1].clone(), pts[n / 2].clone(), pts[n - 1].clone()];
    }
    if pts.len() > 9 {
        // keep the enumeration bounded for long streams: first 4, last 4 and one in the middle
        let n = pts.len();
        let mut keep: Vec<Vec<u8>> = pts[..4].to_vec();
        keep.push(pts[n / 2].clone());
        keep.extend_from_slice(&pts[n - 4..]);
        pts = keep;
    }
    pts
}

fn in_bounds(k: &[u8], lo: &Bound<Vec<u8>>, hi: &Bound<Vec<u8>>) -> bool {
    (match lo {
        Bound::Unbounded => true,
        Bound::Included(x) => k >= x.as_slice(),
        Bound::Excluded(x) => k > x.as_slice(),
    }) && (match hi {
        Bound::Unbounded => true,
        Bound::Included(x) => k <= x.as_slice(),
        Bound::Excluded(x) => k < x.as_slice(),
    })
}

pub struct ProbeStats {
    pub probes: u64,
}

/// Returns (sig, msg) of the first mismatch.
pub fn probe_table(
    ctx: &Ctx,
    path: &Path,
    cs: lsm_tree::Checksum,
    stream: &[Entry],
    rc: &Recover,
    full_interleavings: bool,
    stats: &mut ProbeStats,
) -> Result<(), (String, String)> {
    let g = rc.global_seqno;
    let table = Table::recover(
        path.to_path_buf(),
        cs,
        g,
        0,
        ctx.cache.clone(),
        if rc.fd_table { Some(ctx.fdt.clone()) } else { None },
        rc.pin_filter,
        rc.pin_index,
    )
    .map_err(|e| ("recover-err".to_string(), format!("Table::recover: {e:?}")))?;

    let want: Vec<Item> = stream.iter().map(|e| to_item(e, g)).collect();

    // metadata
    {
        let m = &table.metadata;
        let first = &stream.first().unwrap().key;
        let last = &stream.last().unwrap().key;
        if m.key_range.min().as_ref() != first.as_slice() || m.key_range.max().as_ref() != last.as_slice() {
            return Err((
                "meta-key-range".into(),
                format!("key_range ({:?},{:?}) but stream spans ({first:?},{last:?})", m.key_range.min(), m.key_range.max()),
            ));
        }
        let smin = stream.iter().map(|e| e.seqno).min().unwrap();
        let smax = stream.iter().map(|e| e.seqno).max().unwrap();
        if table.verif_seqnos() != (smin, smax) {
            return Err((
                "meta-seqnos".into(),
                format!("seqnos {:?} but stream has ({smin},{smax})", table.verif_seqnos()),
            ));
        }
        if table.get_highest_seqno() != smax + g {
            return Err((
                "meta-highest-seqno".into(),
                format!("get_highest_seqno {} but stream max {} + global {g}", table.get_highest_seqno(), smax),
            ));
        }
        if m.item_count != stream.len() as u64 {
            return Err(("meta-item-count".into(), format!("item_count {} but {} entries", m.item_count, stream.len())));
        }
        let tombs = stream.iter().filter(|e| e.vt == 1 || e.vt == 2).count() as u64;
        let weak = stream.iter().filter(|e| e.vt == 2).count() as u64;
        if m.tombstone_count != tombs {
            return Err(("meta-tombstone-count".into(), format!("tombstone_count {} but {tombs}", m.tombstone_count)));
        }
        if m.weak_tombstone_count != weak {
            return Err(("meta-weak-tombstone-count".into(), format!("weak_tombstone_count {} but {weak}", m.weak_tombstone_count)));
        }
        stats.probes += 6;
    }

    // scan()
    {
        let sc = table.scan().map_err(|e| ("scan-err".to_string(), format!("scan(): {e:?}")))?;
        let got: Result<Vec<Item>, String> = sc.map(conv).collect();
        let got = got.map_err(|e| ("scan-err".to_string(), e))?;
        stats.probes += 1;
        if got != want {
            return Err(("scan-mismatch".into(), format!("scan() = {got:?}, stream = {want:?}")));
        }
    }
    // iter() forward and backward
    {
        let got: Result<Vec<Item>, String> = table.iter().map(conv).collect();
        let got = got.map_err(|e| ("iter-err".to_string(), e))?;
        stats.probes += 1;
        if got != want {
            return Err(("iter-mismatch".into(), format!("iter() = {got:?}, stream = {want:?}")));
        }
        let got: Result<Vec<Item>, String> = table.iter().rev().map(conv).collect();
        let mut got = got.map_err(|e| ("iter-err".to_string(), e))?;
        got.reverse();
        stats.probes += 1;
        if got != want {
            return Err(("iter-rev-mismatch".into(), format!("iter().rev() reversed = {got:?}, stream = {want:?}")));
        }
    }

    // ranges
    let pts = probe_points(stream);
    let mut bounds: Vec<Bound<Vec<u8>>> = vec![Bound::Unbounded];
    for p in &pts {
        bounds.push(Bound::Included(p.clone()));
        bounds.push(Bound::Excluded(p.clone()));
    }
    for lo in &bounds {
        for hi in &bounds {
            let exp: Vec<Item> = want
                .iter()
                .filter(|it| in_bounds(&it.key, lo, hi))
                .cloned()
                .collect();
            let n = exp.len();
            // patterns: step i takes next_back iff pat(i); n+1 steps (the last must return None)
            #[derive(Clone, Copy)]
            enum Pat {
                Mask(u32),
                AllFront,
                AllBack,
                Alt(bool),
                Pairs(bool),
            }
            let patterns: Vec<Pat> = if full_interleavings && n <= 4 {
                (0..(1u32 << (n + 1))).map(Pat::Mask).collect()
            } else if n <= 12 {
                vec![Pat::AllFront, Pat::AllBack, Pat::Alt(false), Pat::Alt(true), Pat::Pairs(false), Pat::Pairs(true)]
            } else {
                vec![Pat::AllFront, Pat::AllBack, Pat::Alt(true)]
            };
            let is_back = |p: Pat, step: usize| match p {
                Pat::Mask(m) => m & (1 << step) != 0,
                Pat::AllFront => false,
                Pat::AllBack => true,
                Pat::Alt(b) => (step % 2 == 1) == b,
                Pat::Pairs(b) => ((step / 2) % 2 == 1) == b,
            };
            for pat in patterns {
                let lo_b: Bound<lsm_tree::UserKey> = match lo {
                    Bound::Unbounded => Bound::Unbounded,
                    Bound::Included(x) => Bound::Included(x.as_slice().into()),
                    Bound::Excluded(x) => Bound::Excluded(x.as_slice().into()),
                };
                let hi_b: Bound<lsm_tree::UserKey> = match hi {
                    Bound::Unbounded => Bound::Unbounded,
                    Bound::Included(x) => Bound::Included(x.as_slice().into()),
                    Bound::Excluded(x) => Bound::Excluded(x.as_slice().into()),
                };
                let mut it = table.range((lo_b, hi_b));
                let (mut f, mut b) = (0usize, n);
                stats.probes += 1;
                for step in 0..=n {
                    let back = is_back(pat, step);
                    let got = if back { it.next_back() } else { it.next() };
                    let expect = if f < b {
                        if back {
                            b -= 1;
                            Some(&exp[b])
                        } else {
                            f += 1;
                            Some(&exp[f - 1])
                        }
                    } else {
                        None
                    };
                    let got = match got {
                        None => None,
                        Some(x) => Some(conv(x).map_err(|e| ("range-err".to_string(), format!("range({lo:?},{hi:?}): {e}")))?),
                    };
                    if got.as_ref() != expect {
                        return Err((
                            "range-mismatch".into(),
                            format!(
                                "range({lo:?},{hi:?}) step {step} ({}) returned {got:?}, expected {expect:?}",
                                if back { "next_back" } else { "next" }
                            ),
                        ));
                    }
                }
            }
        }
    }

    // point lookups: every key (written or not) x every seqno
    let mut keys: Vec<Vec<u8>> = stream.iter().map(|e| e.key.clone()).collect();
    keys.dedup();
    let mut probe_keys = keys.clone();
    for extra in [&b""[..], b"aa", b"abc", b"c", b"a\x00"] {
        if !probe_keys.iter().any(|k| k == extra) {
            probe_keys.push(extra.to_vec());
        }
    }
    let max_s = stream.iter().map(|e| e.seqno).max().unwrap();
    let mut seqnos: Vec<SeqNo> = (0..=(max_s + g + 2)).collect();
    if seqnos.len() > 24 {
        // bounded: around 0, around g, around every stored seqno, and the top
        let mut s: Vec<SeqNo> = vec![0, 1, g, g + 1];
        for e in stream {
            s.push(e.seqno + g);
            s.push(e.seqno + g + 1);
        }
        s.push(max_s + g + 2);
        s.sort_unstable();
        s.dedup();
        seqnos = s;
    }
    seqnos.push(SeqNo::MAX);
    for k in &probe_keys {
        let hash = lsm_tree::table::filter::standard_bloom::Builder::get_hash(k);
        for &s in &seqnos {
            let exp = want.iter().find(|it| it.key == *k && it.seqno < s);
            stats.probes += 1;
            let got = table
                .get(k, s, hash)
                .map_err(|e| ("get-err".to_string(), format!("get({k:?},{s}): {e:?}")))?;
            let got = got.map(|it| Item {
                key: it.key.user_key.to_vec(),
                seqno: it.key.seqno,
                vt: vt_code(it.key.value_type),
                value: it.value.to_vec(),
            });
            if got.as_ref() != exp {
                return Err((
                    "get-mismatch".into(),
                    format!("get({k:?}, {s}) = {got:?}, expected {exp:?}"),
                ));
            }
        }
    }
    Ok(())
}

pub struct Outcome {
    pub tables: u64,
    pub recovers: u64,
    pub probes: u64,
    pub streams: u64,
    pub settings: u64,
    pub found: Vec<Case>,
    pub capped: bool,
    pub samples: Vec<serde_json::Value>,
    pub wall_s: f64,
}

pub fn recover_variants(all: bool, idx: u64) -> Vec<Recover> {
    let all_v = vec![
        Recover { pin_filter: true, pin_index: true, global_seqno: 0, fd_table: true },
        Recover { pin_filter: false, pin_index: false, global_seqno: 7, fd_table: false },
        Recover { pin_filter: false, pin_index: true, global_seqno: 0, fd_table: false },
        Recover { pin_filter: true, pin_index: false, global_seqno: 7, fd_table: true },
    ];
    if all {
        all_v
    } else {
        // two of the four, alternating, so every variant is exercised across the enumeration
        vec![all_v[(idx % 4) as usize], all_v[((idx + 1) % 4) as usize]]
    }
}

pub fn run(tier: &str, threads: usize, max_wall_s: f64) -> Outcome {
    let start = std::time::Instant::now();
    let quick = tier == "quick";
    let mut streams: Vec<Vec<Entry>> = if quick {
        grid_streams(2, &[0, 1, 2, 3], &[1, 2])
    } else {
        grid_streams(3, &[0, 1, 2, 3], &[0, 1, 2])
    };
    if quick {
        // a thin slice of the 3-entry streams too: values and tombstones, one pattern
        streams.extend(grid_streams(3, &[0, 1], &[1]).into_iter().filter(|s| s.len() == 3).step_by(7));
    } else {
        streams.extend(deep_streams());
    }
    // the adversarial family first, so that a capped run never skips it
    let mut all = adversarial_streams();
    all.extend(streams);
    let streams = all;
    let sets = settings();
    let n_streams = streams.len() as u64;
    let n_sets = sets.len() as u64;

    let root = crate::hx::scratch_root().join("tablemc");
    crate::hx::fresh_dir(&root);
    let streams = Arc::new(streams);
    let sets = Arc::new(sets);
    let next = Arc::new(AtomicU64::new(0));
    let total = n_streams * n_sets;
    let tables = Arc::new(AtomicU64::new(0));
    let recovers = Arc::new(AtomicU64::new(0));
    let probes = Arc::new(AtomicU64::new(0));
    let capped = Arc::new(AtomicBool::new(false));
    let found: Arc<Mutex<Vec<Case>>> = Arc::new(Mutex::new(vec![]));
    let samples: Arc<Mutex<Vec<serde_json::Value>>> = Arc::new(Mutex::new(vec![]));
    let mut hs = vec![];
    for w in 0..threads {
        let (streams, sets, next, tables, recovers, probes, capped, found, samples) = (
            streams.clone(), sets.clone(), next.clone(), tables.clone(), recovers.clone(), probes.clone(), capped.clone(), found.clone(), samples.clone(),
        );
        let dir = root.join(format!("w{w}"));
        hs.push(std::thread::spawn(move || {
            crate::hx::fresh_dir(&dir);
            let ctx = Ctx {
                dir,
                cache: Arc::new(Cache::with_capacity_bytes(8 * 1024 * 1024)),
                fdt: Arc::new(DescriptorTable::new(8)),
            };
            loop {
                let i = next.fetch_add(1, Ordering::Relaxed);
                if i >= total {
                    break;
                }
                if start.elapsed().as_secs_f64() > max_wall_s || found.lock().unwrap().len() > 200 {
                    capped.store(true, Ordering::Relaxed);
                    break;
                }
                let stream = &streams[(i / n_sets) as usize];
                let st = &sets[(i % n_sets) as usize];
                let res = std::panic::catch_unwind(std::panic::AssertUnwindSafe(|| {
                    let (path, _tid, cs) = match write_table(&ctx, stream, st) {
                        Ok(x) => x,
                        Err(e) => return vec![(Recover { pin_filter: true, pin_index: true, global_seqno: 0, fd_table: false }, "write-err".to_string(), e)],
                    };
                    tables.fetch_add(1, Ordering::Relaxed);
                    let mut bad = vec![];
                    for rc in recover_variants(!quick, i) {
                        let mut stt = ProbeStats { probes: 0 };
                        let r = probe_table(&ctx, &path, cs, stream, &rc, !quick || stream.len() <= 2, &mut stt);
                        recovers.fetch_add(1, Ordering::Relaxed);
                        probes.fetch_add(stt.probes, Ordering::Relaxed);
                        if let Err((sig, msg)) = r {
                            bad.push((rc, sig, msg));
                        }
                    }
                    let _ = std::fs::remove_file(&path);
                    bad
                }));
                let bad = match res {
                    Ok(b) => b,
                    Err(p) => {
                        let m = crate::hx::panic_message(&p);
                        vec![(
                            Recover { pin_filter: true, pin_index: true, global_seqno: 0, fd_table: false },
                            format!("panic:{}", crate::hx::sanitize(&m.chars().take(60).collect::<String>())),
                            format!("panic: {m}"),
                        )]
                    }
                };
                for (rc, sig, msg) in bad {
                    found.lock().unwrap().push(Case {
                        engine: "tablemc".into(),
                        property: "C12".into(),
                        stream: stream.clone(),
                        setting: *st,
                        recover: rc,
                        sig,
                        msg,
                    });
                }
                if i % 9973 == 0 {
                    let mut s = samples.lock().unwrap();
                    if s.len() < 6 {
                        s.push(serde_json::json!({"stream": stream.iter().map(|e| format!("{}@{}:{}({}B)", String::from_utf8_lossy(&e.key), e.seqno, e.vt, e.value.len())).collect::<Vec<_>>(), "setting": st}));
                    }
                }
            }
        }));
    }
    for h in hs {
        h.join().expect("tablemc worker");
    }
    let _ = std::fs::remove_dir_all(&root);
    let found = found.lock().unwrap().clone();
    let samples = samples.lock().unwrap().clone();
    Outcome {
        tables: tables.load(Ordering::Relaxed),
        recovers: recovers.load(Ordering::Relaxed),
        probes: probes.load(Ordering::Relaxed),
        streams: n_streams,
        settings: n_sets,
        found,
        capped: capped.load(Ordering::Relaxed),
        samples,
        wall_s: start.elapsed().as_secs_f64(),
    }
}

pub fn replay(case: &Case) -> Vec<(String, String)> {
    let root = crate::hx::scratch_root().join("tablemc-replay");
    crate::hx::fresh_dir(&root);
    let ctx = Ctx {
        dir: root.clone(),
        cache: Arc::new(Cache::with_capacity_bytes(8 * 1024 * 1024)),
        fdt: Arc::new(DescriptorTable::new(8)),
    };
    let res = std::panic::catch_unwind(std::panic::AssertUnwindSafe(|| {
        let (path, _, cs) = match write_table(&ctx, &case.stream, &case.setting) {
            Ok(x) => x,
            Err(e) => return vec![("write-err".to_string(), e)],
        };
        let mut st = ProbeStats { probes: 0 };
        match probe_table(&ctx, &path, cs, &case.stream, &case.recover, true, &mut st) {
            Ok(()) => vec![],
            Err(x) => vec![x],
        }
    }));
    let _ = std::fs::remove_dir_all(&root);
    match res {
        Ok(v) => v,
        Err(p) => {
            let m = crate::hx::panic_message(&p);
            vec![(
                format!("panic:{}", crate::hx::sanitize(&m.chars().take(60).collect::<String>())),
                format!("panic: {m}"),
            )]
        }
    }
}
