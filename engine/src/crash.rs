//! `crash` (C05): every prefix of the file-system mutation log of a history x the persistence
//! outcomes a POSIX file system may produce, each recovered by the real `Config::open`.

use crate::driver::TreeCfg;
use crate::fsx::{clean_run, SubjectJob};
use crate::ops::Op;
use crate::strace::{self, Arg, Rec};
use serde::{Deserialize, Serialize};
use std::collections::{BTreeMap, HashMap, HashSet};
use std::path::{Path, PathBuf};
use std::sync::atomic::{AtomicU64, Ordering};
use std::sync::{Arc, Mutex};

#[derive(Clone, Debug)]
pub enum Ev {
    Marker(String),
    Mkdir { dir: String, name: String },
    Create { dir: String, name: String, inode: usize },
    Write { inode: usize, off: u64, data: Vec<u8> },
    Trunc { inode: usize, len: u64 },
    FsyncFile { inode: usize },
    FsyncDir { dir: String },
    Rename { dir: String, from: String, to_dir: String, to: String },
    Unlink { dir: String, name: String },
    Rmdir { dir: String, name: String },
}

#[derive(Clone, Debug)]
enum FileOp {
    Write { off: u64, data: Vec<u8> },
    Trunc { len: u64 },
}

#[derive(Clone, Debug, Default)]
struct Inode {
    durable: Vec<u8>,
    pending: Vec<FileOp>,
}

#[derive(Clone, Debug, PartialEq)]
enum Node {
    File(usize),
    Dir,
}

#[derive(Clone, Debug)]
enum DirOp {
    Link { name: String, node: Node },
    Unlink { name: String },
    Rename { from: String, to: String },
}

#[derive(Clone, Debug, Default)]
struct DirState {
    durable: BTreeMap<String, Node>,
    volatile: BTreeMap<String, Node>,
    pending: Vec<DirOp>,
}

fn apply_file_ops(base: &[u8], ops: &[FileOp], torn: Option<usize>) -> Vec<u8> {
    let mut b = base.to_vec();
    for (i, op) in ops.iter().enumerate() {
        match op {
            FileOp::Trunc { len } => b.resize(*len as usize, 0),
            FileOp::Write { off, data } => {
                let data: &[u8] = if i + 1 == ops.len() {
                    match torn {
                        Some(n) => &data[..n.min(data.len())],
                        None => data,
                    }
                } else {
                    data
                };
                let end = *off as usize + data.len();
                if b.len() < end {
                    b.resize(end, 0);
                }
                b[*off as usize..end].copy_from_slice(data);
            }
        }
    }
    b
}

fn apply_dir_ops(base: &BTreeMap<String, Node>, ops: &[&DirOp]) -> BTreeMap<String, Node> {
    let mut m = base.clone();
    for op in ops {
        match op {
            DirOp::Link { name, node } => {
                m.insert(name.clone(), node.clone());
            }
            DirOp::Unlink { name } => {
                m.remove(name);
            }
            DirOp::Rename { from, to } => {
                if let Some(n) = m.remove(from) {
                    m.insert(to.clone(), n);
                }
            }
        }
    }
    m
}

/// Turns strace records into file-system events on paths under `root`.
pub fn events_from_trace(recs: &[Rec], root: &str, marks: &str) -> Result<Vec<Ev>, String> {
    #[derive(Clone)]
    struct Handle {
        inode: Option<usize>,
        dir: Option<String>,
        pos: u64,
    }
    let mut fds: HashMap<i64, Handle> = HashMap::new();
    let mut ns: HashMap<String, BTreeMap<String, Node>> = HashMap::new(); // volatile namespace: dir -> entries
    let mut next_inode = 0usize;
    let mut out = vec![];
    let under = |p: &str| p == root || p.starts_with(&format!("{root}/"));
    let split = |p: &str| -> (String, String) {
        match p.rfind('/') {
            Some(i) => (p[..i].to_string(), p[i + 1..].to_string()),
            None => (String::new(), p.to_string()),
        }
    };
    let path_arg = |a: Option<&Arg>| -> Option<String> { a.and_then(|x| x.as_bytes()).map(|b| String::from_utf8_lossy(b).into_owned()) };
    for r in recs {
        if r.ret < 0 {
            continue;
        }
        match r.name.as_str() {
            "mkdir" | "mkdirat" => {
                let p = path_arg(r.args.iter().find(|a| a.as_bytes().is_some()));
                let Some(p) = p else { continue };
                if let Some(rest) = p.strip_prefix(marks) {
                    out.push(Ev::Marker(rest.trim_start_matches('/').to_string()));
                } else if under(&p) {
                    let (d, n) = split(&p);
                    ns.entry(p.clone()).or_default();
                    ns.entry(d.clone()).or_default().insert(n.clone(), Node::Dir);
                    out.push(Ev::Mkdir { dir: d, name: n });
                }
            }
            "openat" | "open" | "creat" => {
                let p = path_arg(r.args.iter().find(|a| a.as_bytes().is_some()));
                let Some(p) = p else { continue };
                if !under(&p) {
                    continue;
                }
                let flags = r.args.iter().map(|a| a.as_raw()).find(|s| s.contains("O_")).unwrap_or("").to_string();
                let fd = r.ret;
                if ns.contains_key(&p) || flags.contains("O_DIRECTORY") {
                    fds.insert(fd, Handle { inode: None, dir: Some(p), pos: 0 });
                    continue;
                }
                let (d, n) = split(&p);
                let existing = ns.get(&d).and_then(|m| m.get(&n)).cloned();
                let inode = match existing {
                    Some(Node::File(i)) => {
                        if flags.contains("O_TRUNC") {
                            out.push(Ev::Trunc { inode: i, len: 0 });
                        }
                        i
                    }
                    Some(Node::Dir) => {
                        fds.insert(fd, Handle { inode: None, dir: Some(p), pos: 0 });
                        continue;
                    }
                    None => {
                        if !(flags.contains("O_CREAT") || r.name == "creat") {
                            // opening something we never saw being created (should not happen under root)
                            continue;
                        }
                        let i = next_inode;
                        next_inode += 1;
                        ns.entry(d.clone()).or_default().insert(n.clone(), Node::File(i));
                        out.push(Ev::Create { dir: d, name: n, inode: i });
                        i
                    }
                };
                fds.insert(fd, Handle { inode: Some(inode), dir: None, pos: 0 });
            }
            "write" | "pwrite64" => {
                let Some(fd) = r.args.first().and_then(|a| a.as_i64()) else { continue };
                let Some(h) = fds.get_mut(&fd) else { continue };
                let Some(inode) = h.inode else { continue };
                let data = r.args.get(1).and_then(|a| a.as_bytes()).map(|b| b.to_vec()).unwrap_or_default();
                let n = r.ret as usize;
                if data.len() < n {
                    return Err(format!("strace truncated a write of {n} bytes to {} (raise -s)", data.len()));
                }
                let data = data[..n].to_vec();
                let off = if r.name == "pwrite64" { r.args.get(3).and_then(|a| a.as_i64()).unwrap_or(0) as u64 } else { h.pos };
                if r.name == "write" {
                    h.pos += n as u64;
                }
                out.push(Ev::Write { inode, off, data });
            }
            "writev" => {
                return Err("writev seen: not modelled".into());
            }
            "lseek" => {
                let Some(fd) = r.args.first().and_then(|a| a.as_i64()) else { continue };
                if let Some(h) = fds.get_mut(&fd) {
                    h.pos = r.ret as u64;
                }
            }
            "ftruncate" => {
                let Some(fd) = r.args.first().and_then(|a| a.as_i64()) else { continue };
                if let Some(Handle { inode: Some(i), .. }) = fds.get(&fd) {
                    let len = r.args.get(1).and_then(|a| a.as_i64()).unwrap_or(0) as u64;
                    out.push(Ev::Trunc { inode: *i, len });
                }
            }
            "fsync" | "fdatasync" => {
                let Some(fd) = r.args.first().and_then(|a| a.as_i64()) else { continue };
                match fds.get(&fd) {
                    Some(Handle { inode: Some(i), .. }) => out.push(Ev::FsyncFile { inode: *i }),
                    Some(Handle { dir: Some(d), .. }) => out.push(Ev::FsyncDir { dir: d.clone() }),
                    _ => {}
                }
            }
            "close" => {
                if let Some(fd) = r.args.first().and_then(|a| a.as_i64()) {
                    fds.remove(&fd);
                }
            }
            "rename" | "renameat" | "renameat2" => {
                let ps: Vec<String> = r.args.iter().filter_map(|a| a.as_bytes()).map(|b| String::from_utf8_lossy(b).into_owned()).collect();
                if ps.len() != 2 || !under(&ps[0]) {
                    continue;
                }
                let (fd_, fn_) = split(&ps[0]);
                let (td, tn) = split(&ps[1]);
                if let Some(n) = ns.entry(fd_.clone()).or_default().remove(&fn_) {
                    ns.entry(td.clone()).or_default().insert(tn.clone(), n);
                }
                out.push(Ev::Rename { dir: fd_, from: fn_, to_dir: td, to: tn });
            }
            "unlink" | "unlinkat" | "rmdir" => {
                let p = path_arg(r.args.iter().find(|a| a.as_bytes().is_some()));
                let Some(p) = p else { continue };
                if !under(&p) {
                    continue;
                }
                let (d, n) = split(&p);
                let is_dir = r.name == "rmdir" || r.args.iter().any(|a| a.as_raw().contains("AT_REMOVEDIR"));
                ns.entry(d.clone()).or_default().remove(&n);
                if is_dir {
                    ns.remove(&p);
                    out.push(Ev::Rmdir { dir: d, name: n });
                } else {
                    out.push(Ev::Unlink { dir: d, name: n });
                }
            }
            "link" | "linkat" | "symlink" | "symlinkat" | "truncate" => {
                return Err(format!("{} seen: not modelled", r.name));
            }
            _ => {}
        }
    }
    Ok(out)
}

pub type Image = BTreeMap<String, Option<Vec<u8>>>; // relative path -> None (directory) | file bytes

#[derive(Clone, Copy, Debug, PartialEq, Eq)]
pub enum FsModel {
    /// fsync(file) persists data only; directory entries need fsync(dir)
    Posix,
    /// fsync(file) also persists the entry that links the file (ext4/xfs behaviour)
    Linux,
}

pub struct Sim {
    root: String,
    inodes: Vec<Inode>,
    dirs: BTreeMap<String, DirState>,
    model: FsModel,
}

impl Sim {
    pub fn new(root: &str, model: FsModel) -> Self {
        Self { root: root.to_string(), inodes: vec![], dirs: BTreeMap::new(), model }
    }

    fn dir(&mut self, d: &str) -> &mut DirState {
        self.dirs.entry(d.to_string()).or_default()
    }

    pub fn apply(&mut self, ev: &Ev) {
        match ev {
            Ev::Marker(_) => {}
            Ev::Mkdir { dir, name } => {
                let full = format!("{dir}/{name}");
                self.dirs.entry(full).or_default();
                let is_root = format!("{dir}/{name}") == self.root;
                let ds = self.dir(dir);
                ds.volatile.insert(name.clone(), Node::Dir);
                if is_root {
                    // assumption: the tree directory's own entry in its parent is durable once created
                    // (making the parent durable is the caller's business; stated in the evidence)
                    ds.durable.insert(name.clone(), Node::Dir);
                } else {
                    ds.pending.push(DirOp::Link { name: name.clone(), node: Node::Dir });
                }
            }
            Ev::Create { dir, name, inode } => {
                while self.inodes.len() <= *inode {
                    self.inodes.push(Inode::default());
                }
                let ds = self.dir(dir);
                ds.volatile.insert(name.clone(), Node::File(*inode));
                ds.pending.push(DirOp::Link { name: name.clone(), node: Node::File(*inode) });
            }
            Ev::Write { inode, off, data } => {
                self.inodes[*inode].pending.push(FileOp::Write { off: *off, data: data.clone() });
            }
            Ev::Trunc { inode, len } => {
                self.inodes[*inode].pending.push(FileOp::Trunc { len: *len });
            }
            Ev::FsyncFile { inode } => {
                let ino = &mut self.inodes[*inode];
                ino.durable = apply_file_ops(&ino.durable, &ino.pending, None);
                ino.pending.clear();
                if self.model == FsModel::Linux {
                    // persist the entry that links this inode, if it is still pending
                    for ds in self.dirs.values_mut() {
                        if let Some(pos) = ds.pending.iter().position(|op| matches!(op, DirOp::Link { node: Node::File(i), .. } if i == inode)) {
                            let op = ds.pending.remove(pos);
                            ds.durable = apply_dir_ops(&ds.durable, &[&op]);
                        }
                    }
                }
            }
            Ev::FsyncDir { dir } => {
                if self.model == FsModel::Linux {
                    // ext4-like: syncing a directory also persists the entry that links it
                    if let Some(i) = dir.rfind('/') {
                        let (par, name) = (dir[..i].to_string(), dir[i + 1..].to_string());
                        if let Some(ds) = self.dirs.get_mut(&par) {
                            if let Some(pos) = ds.pending.iter().position(|op| matches!(op, DirOp::Link { name: n, node: Node::Dir } if *n == name)) {
                                let op = ds.pending.remove(pos);
                                ds.durable = apply_dir_ops(&ds.durable, &[&op]);
                            }
                        }
                    }
                }
                let ds = self.dir(dir);
                let ops: Vec<DirOp> = std::mem::take(&mut ds.pending);
                let refs: Vec<&DirOp> = ops.iter().collect();
                ds.durable = apply_dir_ops(&ds.durable, &refs);
            }
            Ev::Rename { dir, from, to_dir, to } => {
                if dir == to_dir {
                    let ds = self.dir(dir);
                    if let Some(n) = ds.volatile.remove(from) {
                        ds.volatile.insert(to.clone(), n);
                    }
                    ds.pending.push(DirOp::Rename { from: from.clone(), to: to.clone() });
                } else {
                    let node = self.dir(dir).volatile.remove(from);
                    self.dir(dir).pending.push(DirOp::Unlink { name: from.clone() });
                    if let Some(n) = node {
                        self.dir(to_dir).volatile.insert(to.clone(), n.clone());
                        self.dir(to_dir).pending.push(DirOp::Link { name: to.clone(), node: n });
                    }
                }
            }
            Ev::Unlink { dir, name } | Ev::Rmdir { dir, name } => {
                let ds = self.dir(dir);
                ds.volatile.remove(name);
                ds.pending.push(DirOp::Unlink { name: name.clone() });
            }
        }
    }

    /// Every crash image the model allows right now (capped); returns (images, cap_hit).
    pub fn images(&self, cap: usize) -> (Vec<Image>, bool) {
        // choices per directory: subsets of pending ops in program order (prefixes only if many)
        let root_parent = match self.root.rfind('/') {
            Some(i) => self.root[..i].to_string(),
            None => String::new(),
        };
        let root_name = self.root[root_parent.len() + 1..].to_string();
        let mut dir_names: Vec<&String> = self.dirs.keys().collect();
        dir_names.sort();
        let mut dir_choices: Vec<Vec<BTreeMap<String, Node>>> = vec![];
        for d in &dir_names {
            let ds = &self.dirs[*d];
            let m = ds.pending.len();
            let mut opts: Vec<BTreeMap<String, Node>> = vec![];
            if m <= 4 {
                for mask in 0u32..(1 << m) {
                    let sel: Vec<&DirOp> = (0..m).filter(|i| mask & (1 << i) != 0).map(|i| &ds.pending[i]).collect();
                    let r = apply_dir_ops(&ds.durable, &sel);
                    if !opts.contains(&r) {
                        opts.push(r);
                    }
                }
            } else {
                for j in 0..=m {
                    let sel: Vec<&DirOp> = ds.pending[..j].iter().collect();
                    let r = apply_dir_ops(&ds.durable, &sel);
                    if !opts.contains(&r) {
                        opts.push(r);
                    }
                }
            }
            dir_choices.push(opts);
        }
        let mut images: Vec<Image> = vec![];
        let mut seen: HashSet<u64> = HashSet::new();
        let mut cap_hit = false;
        // iterate the product of directory choices
        let mut idx = vec![0usize; dir_choices.len()];
        'outer: loop {
            // namespace under this choice
            let mut nsmap: BTreeMap<&String, &BTreeMap<String, Node>> = BTreeMap::new();
            for (i, d) in dir_names.iter().enumerate() {
                nsmap.insert(*d, &dir_choices[i][idx[i]]);
            }
            // walk from the root's parent
            let mut img_dirs: Vec<String> = vec![];
            let mut files: Vec<(String, usize)> = vec![];
            let root_exists = nsmap.get(&root_parent).is_some_and(|m| m.get(&root_name) == Some(&Node::Dir));
            if root_exists {
                let mut stack = vec![self.root.clone()];
                while let Some(d) = stack.pop() {
                    img_dirs.push(d.clone());
                    if let Some(m) = nsmap.get(&d) {
                        for (n, node) in m.iter() {
                            match node {
                                Node::Dir => stack.push(format!("{d}/{n}")),
                                Node::File(i) => files.push((format!("{d}/{n}"), *i)),
                            }
                        }
                    }
                }
            }
            // content choices per reachable inode
            let mut file_opts: Vec<Vec<Vec<u8>>> = vec![];
            for (_, i) in &files {
                let ino = &self.inodes[*i];
                let m = ino.pending.len();
                let mut opts: Vec<Vec<u8>> = vec![];
                let js: Vec<usize> = if m <= 6 { (0..=m).collect() } else { vec![0, 1, m / 2, m - 1, m] };
                for j in js {
                    let c = apply_file_ops(&ino.durable, &ino.pending[..j], None);
                    if !opts.contains(&c) {
                        opts.push(c);
                    }
                    // torn last write
                    if j > 0 {
                        if let FileOp::Write { data, .. } = &ino.pending[j - 1] {
                            if data.len() > 1 {
                                for t in [1usize, data.len() - 1] {
                                    let c = apply_file_ops(&ino.durable, &ino.pending[..j], Some(t));
                                    if !opts.contains(&c) {
                                        opts.push(c);
                                    }
                                }
                            }
                        }
                    }
                }
                file_opts.push(opts);
            }
            let mut fidx = vec![0usize; file_opts.len()];
            loop {
                let mut img: Image = BTreeMap::new();
                for d in &img_dirs {
                    let rel = d.strip_prefix(&self.root).unwrap_or("").trim_start_matches('/').to_string();
                    img.insert(rel, None);
                }
                for (k, (p, _)) in files.iter().enumerate() {
                    let rel = p.strip_prefix(&self.root).unwrap_or(p).trim_start_matches('/').to_string();
                    img.insert(rel, Some(file_opts[k][fidx[k]].clone()));
                }
                let h = {
                    use std::hash::{Hash, Hasher};
                    let mut hh = std::collections::hash_map::DefaultHasher::new();
                    img.hash(&mut hh);
                    hh.finish()
                };
                if seen.insert(h) {
                    images.push(img);
                    if images.len() >= cap {
                        cap_hit = true;
                        break 'outer;
                    }
                }
                // next file combination
                let mut k = 0;
                loop {
                    if k == fidx.len() {
                        break;
                    }
                    fidx[k] += 1;
                    if fidx[k] < file_opts[k].len() {
                        break;
                    }
                    fidx[k] = 0;
                    k += 1;
                }
                if k == fidx.len() {
                    break;
                }
            }
            // next directory combination
            let mut k = 0;
            loop {
                if k == idx.len() {
                    break;
                }
                idx[k] += 1;
                if idx[k] < dir_choices[k].len() {
                    break;
                }
                idx[k] = 0;
                k += 1;
            }
            if k == idx.len() {
                break;
            }
        }
        (images, cap_hit)
    }
}

pub fn materialize(img: &Image, dir: &Path) -> std::io::Result<()> {
    let _ = std::fs::remove_dir_all(dir);
    if img.is_empty() {
        return Ok(()); // the tree directory itself did not survive
    }
    for (rel, content) in img {
        let p = if rel.is_empty() { dir.to_path_buf() } else { dir.join(rel) };
        match content {
            None => std::fs::create_dir_all(&p)?,
            Some(b) => {
                if let Some(par) = p.parent() {
                    std::fs::create_dir_all(par)?;
                }
                std::fs::write(&p, b)?;
            }
        }
    }
    Ok(())
}

#[derive(Clone, Debug, Serialize, Deserialize)]
pub struct CrashReplay {
    pub engine: String,
    pub property: String,
    pub history_name: String,
    pub cfg: TreeCfg,
    pub ops: Vec<Op>,
    pub fs_model: String,
    /// index of the last event applied before the crash
    pub cut: usize,
    pub event: String,
    /// the image: relative path -> hex bytes (null = directory)
    pub image: BTreeMap<String, Option<String>>,
    pub allowed: Vec<usize>,
    pub sig: String,
    pub msg: String,
}

pub struct CrashHistory {
    pub name: String,
    pub cfg: TreeCfg,
    pub ops: Vec<Op>,
}

pub fn crash_histories(tier: &str) -> Vec<CrashHistory> {
    use crate::ops::{Bnd, IKind, Wm};
    let ab = crate::driver::keys_ab();
    let fl = Op::Flush { w: Wm::Tight };
    let mut c4 = TreeCfg::small(ab.clone());
    c4.block_size = 4096;
    let mut v = vec![
        CrashHistory {
            name: "flush-flush-major".into(),
            cfg: c4.clone(),
            ops: vec![Op::MultiPut { ks: vec![0, 1] }, fl.clone(), Op::Put { k: 0, big: false }, Op::Del { k: 1 }, fl.clone(), Op::Major { w: Wm::Tight, target: u64::MAX }],
        },
        CrashHistory {
            name: "blob-flush-flush-major".into(),
            cfg: {
                let mut c = c4.clone().with_blob(16);
                if let Some(b) = &mut c.blob {
                    b.staleness = 0.0;
                    b.age_cutoff = 1.0;
                }
                c
            },
            ops: vec![
                Op::Put { k: 0, big: true },
                Op::Put { k: 1, big: true },
                fl.clone(),
                Op::Put { k: 0, big: true },
                fl.clone(),
                Op::Major { w: Wm::Tight, target: u64::MAX },
                Op::Major { w: Wm::Tight, target: u64::MAX },
            ],
        },
    ];
    {
        v.push(CrashHistory {
            name: "leveled-move-and-merge".into(),
            cfg: TreeCfg::small(ab.clone()),
            ops: vec![
                Op::MultiPut { ks: vec![0, 1] },
                fl.clone(),
                Op::Leveled { w: Wm::Tight, p: 0 },
                Op::MultiPut { ks: vec![0, 1] },
                fl.clone(),
                Op::Leveled { w: Wm::Tight, p: 0 },
            ],
        });
        v.push(CrashHistory {
            name: "ingest-droprange-clear".into(),
            cfg: c4.clone(),
            ops: vec![
                Op::MultiPut { ks: vec![0, 1] },
                fl.clone(),
                Op::Ingest { items: vec![(0, IKind::Val), (1, IKind::Tomb)] },
                Op::DropRange { lo: Bnd::Inc(b"a".to_vec()), hi: Bnd::Inc(b"a".to_vec()) },
                Op::Put { k: 1, big: false },
                fl.clone(),
                Op::Clear,
                Op::Put { k: 0, big: false },
                fl.clone(),
            ],
        });
        v.push(CrashHistory {
            name: "blob-ingest-droprange-reopen".into(),
            cfg: c4.clone().with_blob(16),
            ops: vec![
                Op::Put { k: 0, big: true },
                fl.clone(),
                Op::Ingest { items: vec![(0, IKind::BigVal), (1, IKind::Val)] },
                Op::Reopen,
                Op::DropRange { lo: Bnd::Unb, hi: Bnd::Unb },
                Op::Put { k: 1, big: true },
                fl.clone(),
            ],
        });
    }
    let big = |b: bool| vec![Op::Put { k: 0, big: b }, Op::Put { k: 1, big: b }];
    let maint: Vec<(&str, Op)> = vec![
        ("F", fl.clone()),
        ("FL", Op::FlushLeveled { w: Wm::Tight, p: 0 }),
        ("M", Op::Seq { ops: vec![fl.clone(), Op::Major { w: Wm::Tight, target: u64::MAX }] }),
        ("C", Op::Clear),
        ("D", Op::DropRange { lo: Bnd::Inc(b"a".to_vec()), hi: Bnd::Inc(b"a".to_vec()) }),
        ("I", Op::Ingest { items: vec![(0, IKind::Val), (1, IKind::Tomb)] }),
        ("O", Op::Reopen),
    ];
    if tier == "quick" {
        // every sequence of two maintenance steps around a fixed write pattern, standard and blob
        for blob in [false, true] {
            for (n1, x1) in &maint {
                for (n2, x2) in &maint {
                    let mut ops = big(blob);
                    ops.push(x1.clone());
                    ops.push(Op::Put { k: 0, big: blob });
                    ops.push(Op::Del { k: 1 });
                    ops.push(x2.clone());
                    let cfg = if blob {
                        let mut c = c4.clone().with_blob(16);
                        if let Some(b) = &mut c.blob {
                            b.staleness = 0.0;
                            b.age_cutoff = 1.0;
                        }
                        c
                    } else {
                        TreeCfg::small(ab.clone())
                    };
                    v.push(CrashHistory { name: format!("gen2-{}-{n1}{n2}", if blob { "blob" } else { "std" }), cfg, ops });
                }
            }
        }
    }
    if tier != "quick" {
        // every sequence of three maintenance steps between a fixed write pattern, standard and blob
        for blob in [false, true] {
            for (n1, x1) in &maint {
                for (n2, x2) in &maint {
                    for (n3, x3) in &maint {
                        let mut ops = big(blob);
                        ops.push(x1.clone());
                        ops.push(Op::Put { k: 0, big: blob });
                        ops.push(Op::Del { k: 1 });
                        ops.push(x2.clone());
                        ops.push(Op::Put { k: 1, big: blob });
                        ops.push(x3.clone());
                        let cfg = if blob {
                            let mut c = c4.clone().with_blob(16);
                            if let Some(b) = &mut c.blob {
                                b.staleness = 0.0;
                                b.age_cutoff = 1.0;
                            }
                            c
                        } else {
                            TreeCfg::small(ab.clone())
                        };
                        v.push(CrashHistory { name: format!("gen-{}-{n1}{n2}{n3}", if blob { "blob" } else { "std" }), cfg, ops });
                    }
                }
            }
        }
    }
    v
}

pub struct CrashOutcome {
    pub histories: usize,
    pub events: u64,
    pub cuts: u64,
    pub images: u64,
    pub images_checked: u64,
    pub cap_hits: u64,
    pub ok_before: u64,
    pub ok_after: u64,
    pub found: Vec<CrashReplay>,
    pub machinery: Vec<String>,
    pub capped: bool,
    pub samples: Vec<serde_json::Value>,
    pub wall_s: f64,
    pub per_model: BTreeMap<String, u64>,
}

struct ImgJob {
    h: Arc<CrashHistory>,
    dumps: Arc<Vec<Vec<String>>>,
    model: FsModel,
    cut: usize,
    event: String,
    img: Image,
    allowed: Vec<usize>,
}

pub fn check_image(wk: &mut crate::corrupt::WorkerHandle, scratch: &Path, cfg: &TreeCfg, img: &Image) -> String {
    let dir = scratch.join("img");
    if let Err(e) = materialize(img, &dir) {
        return format!("HARNESS materialize: {e}");
    }
    wk.run_image(&dir, cfg)
}

fn has_ingest(op: &Op) -> bool {
    match op {
        Op::Ingest { items } => !items.is_empty(),
        Op::Seq { ops } => ops.iter().any(has_ingest),
        _ => false,
    }
}

/// `D_0..D_n` (clean reopen after each prefix) plus, for every ingestion op `k`, the state "everything
/// written before op k, flushed": an ingestion first flushes the memtables, which is a durable step of
/// its own; a crash after it shows all earlier acknowledged writes and nothing of the batch.
/// Returns (dumps, for each op the index of its extra dump if any).
pub fn dumps_for(cfg: &TreeCfg, ops: &[Op], root: &Path) -> Result<(Vec<Vec<String>>, Vec<Option<usize>>), String> {
    let (_, mut dumps) = clean_run(cfg, ops, root)?;
    let mut extra = vec![None; ops.len()];
    for (k, op) in ops.iter().enumerate() {
        if has_ingest(op) {
            let mut pre: Vec<Op> = ops[..k].to_vec();
            pre.push(Op::Flush { w: crate::ops::Wm::Zero });
            let (_, d) = clean_run(cfg, &pre, root)?;
            dumps.push(d.last().cloned().unwrap_or_default());
            extra[k] = Some(dumps.len() - 1);
        }
    }
    Ok((dumps, extra))
}

/// Traces one history and enumerates its crash images.
fn prepare_history(h: CrashHistory, root: &Path, tier: &str) -> Result<(Vec<ImgJob>, u64, u64, u64, serde_json::Value), String> {
    let mut jobs: Vec<ImgJob> = vec![];
    let (mut n_cuts, mut n_images, mut cap_hits) = (0u64, 0u64, 0u64);
    let _ = &mut n_images;
        let (reopen, extra_dump) = match dumps_for(&h.cfg, &h.ops, root) {
            Ok(x) => x,
            Err(e) => return Err(e),
        };
        let sc = root.join("trace");
        crate::hx::fresh_dir(&sc);
        let marks = sc.join("marks");
        crate::hx::fresh_dir(&marks);
        let tree_dir = sc.join("tree");
        let job = SubjectJob {
            dir: tree_dir.to_string_lossy().into_owned(),
            marks: marks.to_string_lossy().into_owned(),
            cfg: h.cfg.clone(),
            ops: h.ops.clone(),
            mode: "plain".into(),
            clean_live: vec![],
            clean_reopen: vec![],
        };
        let jp = sc.join("job.json");
        std::fs::write(&jp, serde_json::to_string(&job).unwrap()).unwrap();
        let exe = std::env::current_exe().unwrap();
        let recs = match strace::run_traced(&sc.join("trace.txt"), None, 16 * 1024 * 1024, &exe, &["fs-subject", jp.to_str().unwrap()]) {
            Ok((_, out, recs)) if out.contains("REPORT ") => recs,
            Ok(_) => return Err(format!("traced run of {} gave no report", h.name)),
            Err(e) => return Err(format!("strace failed: {e}")),
        };
        let evs = match events_from_trace(&recs, &job.dir, &job.marks) {
            Ok(e) => e,
            Err(e) => return Err(format!("{}: {e}", h.name)),
        };
        let n_events = evs.len() as u64;
        // self-check: replaying all events must reproduce the real directory
        {
            let mut sim = Sim::new(&job.dir, FsModel::Posix);
            // the parent of the root exists durably
            for ev in &evs {
                sim.apply(ev);
            }
            let mut final_sim = sim;
            // make everything durable
            let dirs: Vec<String> = final_sim.dirs.keys().cloned().collect();
            for i in 0..final_sim.inodes.len() {
                final_sim.apply(&Ev::FsyncFile { inode: i });
            }
            for d in dirs {
                final_sim.apply(&Ev::FsyncDir { dir: d });
            }
            let (imgs, _) = final_sim.images(4);
            let ok = imgs.len() == 1 && {
                let img = &imgs[0];
                let mut same = true;
                for (rel, content) in img {
                    let p = if rel.is_empty() { tree_dir.clone() } else { tree_dir.join(rel) };
                    match content {
                        None => same &= p.is_dir(),
                        Some(b) => same &= std::fs::read(&p).map(|x| x == *b).unwrap_or(false),
                    }
                }
                let on_disk = crate::corrupt::rel_files_pub(&tree_dir);
                same && on_disk.iter().all(|f| img.contains_key(f))
            };
            if !ok {
                return Err(format!("{}: the event log does not reproduce the directory the subject left behind (fs model out of sync with the trace)", h.name));
            }
        }
        let h = Arc::new(h);
        let dumps = Arc::new(reopen);
        for model in [FsModel::Posix, FsModel::Linux] {
            let mut sim = Sim::new(&job.dir, model);
            let mut cur_op: Option<usize> = None; // Some(k) while inside op k
            let mut done_ops = 0usize; // ops completed
            let mut opened = false;
            let mut seen_cut: HashSet<u64> = HashSet::new();
            for (ci, ev) in evs.iter().enumerate() {
                sim.apply(ev);
                if let Ev::Marker(m) = ev {
                    if m == "O" {
                        opened = true;
                    } else if let Some(n) = m.strip_prefix('B') {
                        cur_op = n.parse().ok();
                    } else if m.starts_with('E') {
                        cur_op = None;
                        done_ops += 1;
                    }
                    continue;
                }
                let allowed: Vec<usize> = if !opened {
                    vec![0]
                } else if let Some(k) = cur_op {
                    let mut a = vec![done_ops, done_ops + 1];
                    if let Some(Some(x)) = extra_dump.get(k) {
                        a.push(*x);
                    }
                    a
                } else {
                    vec![done_ops]
                };
                n_cuts += 1;
                let (imgs, hit) = sim.images(if tier == "quick" { 256 } else { 4096 });
                if hit {
                    cap_hits += 1;
                }
                for img in imgs {
                    use std::hash::{Hash, Hasher};
                    let mut hh = std::collections::hash_map::DefaultHasher::new();
                    img.hash(&mut hh);
                    allowed.hash(&mut hh);
                    if !seen_cut.insert(hh.finish()) {
                        continue;
                    }
                    n_images += 1;
                    jobs.push(ImgJob { h: h.clone(), dumps: dumps.clone(), model, cut: ci, event: format!("{ev:?}").chars().take(120).collect(), img, allowed: allowed.clone() });
                }
            }
        }
        let sample = serde_json::json!({"history": h.name, "ops": crate::ops::short_hist(&h.ops), "fs_events": evs.len()});
    
        Ok((jobs, n_events, n_cuts, cap_hits, sample))
}

#[derive(serde::Deserialize, Default)]
struct ImgAnswer {
    ans: Vec<String>,
    leftover: Vec<String>,
}

/// `leftover_mode` (C20): only files left behind after recovery are violations; otherwise (C05) only content.
pub fn run(tier: &str, threads: usize, max_wall_s: f64, leftover_mode: bool) -> CrashOutcome {
    let start = std::time::Instant::now();
    let root = crate::hx::scratch_root().join("crash");
    crate::hx::fresh_dir(&root);
    let mut machinery = vec![];
    if !strace::strace_available() {
        machinery.push("strace is not available".to_string());
    }
    let hs = crash_histories(tier);
    let n_hist = hs.len();
    let hs: Arc<Mutex<Vec<CrashHistory>>> = Arc::new(Mutex::new(hs.into_iter().rev().collect()));
    let queue: Arc<Mutex<Vec<ImgJob>>> = Arc::new(Mutex::new(vec![]));
    let producers = Arc::new(AtomicU64::new(0));
    let n_events = Arc::new(AtomicU64::new(0));
    let n_cuts = Arc::new(AtomicU64::new(0));
    let n_images = Arc::new(AtomicU64::new(0));
    let cap_hits = Arc::new(AtomicU64::new(0));
    let hist_done = Arc::new(AtomicU64::new(0));
    let samples: Arc<Mutex<Vec<serde_json::Value>>> = Arc::new(Mutex::new(vec![]));
    let checked = Arc::new(AtomicU64::new(0));
    let ok_before = Arc::new(AtomicU64::new(0));
    let ok_after = Arc::new(AtomicU64::new(0));
    let found: Arc<Mutex<Vec<CrashReplay>>> = Arc::new(Mutex::new(vec![]));
    let mach: Arc<Mutex<Vec<String>>> = Arc::new(Mutex::new(machinery));
    let capped = Arc::new(std::sync::atomic::AtomicBool::new(false));
    let per_model: Arc<Mutex<BTreeMap<String, u64>>> = Arc::new(Mutex::new(BTreeMap::new()));
    let mut handles = vec![];
    for w in 0..threads {
        let (checked, ok_before, ok_after, found, mach, capped, per_model) =
            (checked.clone(), ok_before.clone(), ok_after.clone(), found.clone(), mach.clone(), capped.clone(), per_model.clone());
        let (hs, queue, producers, n_events, n_cuts, n_images, cap_hits, hist_done, samples) =
            (hs.clone(), queue.clone(), producers.clone(), n_events.clone(), n_cuts.clone(), n_images.clone(), cap_hits.clone(), hist_done.clone(), samples.clone());
        let tier = tier.to_string();
        let scratch = root.join(format!("w{w}"));
        handles.push(std::thread::spawn(move || {
            crate::hx::fresh_dir(&scratch);
            let mut wk = crate::corrupt::WorkerHandle::spawn();
            loop {
                if start.elapsed().as_secs_f64() > max_wall_s {
                    if !queue.lock().unwrap().is_empty() || !hs.lock().unwrap().is_empty() {
                        capped.store(true, Ordering::Relaxed);
                    }
                    break;
                }
                // images first (keeps the queue short), then the next history
                let job = queue.lock().unwrap().pop();
                let j = match job {
                    Some(j) => j,
                    None => {
                        let h = {
                            let mut g = hs.lock().unwrap();
                            let h = g.pop();
                            if h.is_some() {
                                producers.fetch_add(1, Ordering::SeqCst);
                            }
                            h
                        };
                        match h {
                            Some(h) => {
                                match prepare_history(h, &scratch.join("prep"), &tier) {
                                    Ok((jobs, ev, cuts, caps, sample)) => {
                                        n_events.fetch_add(ev, Ordering::Relaxed);
                                        n_cuts.fetch_add(cuts, Ordering::Relaxed);
                                        n_images.fetch_add(jobs.len() as u64, Ordering::Relaxed);
                                        cap_hits.fetch_add(caps, Ordering::Relaxed);
                                        hist_done.fetch_add(1, Ordering::Relaxed);
                                        let mut sm = samples.lock().unwrap();
                                        if sm.len() < 4 {
                                            sm.push(sample);
                                        }
                                        queue.lock().unwrap().extend(jobs);
                                    }
                                    Err(e) => mach.lock().unwrap().push(e),
                                }
                                producers.fetch_sub(1, Ordering::SeqCst);
                                continue;
                            }
                            None => {
                                if producers.load(Ordering::SeqCst) == 0 && queue.lock().unwrap().is_empty() {
                                    break;
                                }
                                std::thread::sleep(std::time::Duration::from_millis(2));
                                continue;
                            }
                        }
                    }
                };
                let j = &j;
                let r = check_image(&mut wk, &scratch, &j.h.cfg, &j.img);
                // a timeout may be machine load: the image gets a second, patient attempt in a fresh
                // worker before it counts as a hang
                let r = if r == "TIMEOUT" {
                    wk = crate::corrupt::WorkerHandle::spawn();
                    wk.timeout_s = 180;
                    let x = check_image(&mut wk, &scratch, &j.h.cfg, &j.img);
                    wk.timeout_s = 20;
                    x
                } else {
                    r
                };
                checked.fetch_add(1, Ordering::Relaxed);
                let model_s = if j.model == FsModel::Posix { "posix" } else { "linux" };
                *per_model.lock().unwrap().entry(model_s.to_string()).or_insert(0) += 1;
                let mut push = |kind: &str, msg: String| {
                    found.lock().unwrap().push(CrashReplay {
                        engine: "crash".into(),
                        property: if leftover_mode { "C20".into() } else { "C05".into() },
                        history_name: j.h.name.clone(),
                        cfg: j.h.cfg.clone(),
                        ops: j.h.ops.clone(),
                        fs_model: model_s.to_string(),
                        cut: j.cut,
                        event: j.event.clone(),
                        image: j.img.iter().map(|(k, v)| (k.clone(), v.as_ref().map(|b| b.iter().map(|x| format!("{x:02x}")).collect::<String>()))).collect(),
                        allowed: j.allowed.clone(),
                        sig: format!("{kind}:fs={model_s}"),
                        msg,
                    });
                };
                let ctx = format!(
                    "history {} [{}], crash after fs event #{} ({}), fs model {model_s}, image files {:?}",
                    j.h.name,
                    crate::ops::short_hist(&j.h.ops),
                    j.cut,
                    j.event,
                    j.img.iter().map(|(k, v)| format!("{k}:{}", v.as_ref().map_or("dir".to_string(), |b| b.len().to_string()))).collect::<Vec<_>>()
                );
                if leftover_mode {
                    if let Some(ans) = r.strip_prefix("ANS ") {
                        let a: ImgAnswer = serde_json::from_str(ans).unwrap_or_default();
                        if a.leftover.is_empty() {
                            ok_after.fetch_add(1, Ordering::Relaxed);
                        } else {
                            let kind = if a.leftover.iter().any(|f| f.starts_with("tables/")) {
                                "table"
                            } else if a.leftover.iter().any(|f| f.starts_with("blobs/")) {
                                "blob"
                            } else {
                                "version"
                            };
                            push(&format!("files-after-crash-recovery:{kind}"), format!("{ctx}: after recovery the directory still holds {:?}, which the recovered version does not name", a.leftover));
                        }
                    }
                    continue;
                }
                if let Some(ans) = r.strip_prefix("ANS ") {
                    let ans: Vec<String> = serde_json::from_str::<ImgAnswer>(ans).unwrap_or_default().ans;
                    let which = j.allowed.iter().position(|k| j.dumps.get(*k) == Some(&ans));
                    match which {
                        Some(0) if j.allowed.len() >= 2 => {
                            ok_before.fetch_add(1, Ordering::Relaxed);
                        }
                        Some(_) => {
                            ok_after.fetch_add(1, Ordering::Relaxed);
                        }
                        None => {
                            let want: Vec<String> = j.allowed.iter().map(|k| format!("after {k} ops")).collect();
                            let d = j.allowed.iter().filter_map(|k| j.dumps.get(*k)).map(|w| crate::fsx::diff_lines(w, &ans)).collect::<Vec<_>>();
                            push("wrong-content", format!("{ctx}: recovered content equals none of the allowed states ({want:?}); differences: {d:?}"));
                        }
                    }
                } else if r.starts_with("ERR") {
                    push("unopenable", format!("{ctx}: {r}"));
                } else if r.starts_with("PANIC") {
                    push("recovery-panic", format!("{ctx}: {r}"));
                } else if r.starts_with("CONT") {
                    push("unusable-after-recovery", format!("{ctx}: {r}"));
                } else if r == "ABORT" || r == "TIMEOUT" {
                    push("recovery-abort", format!("{ctx}: worker {r}"));
                    wk = crate::corrupt::WorkerHandle::spawn();
                } else {
                    mach.lock().unwrap().push(format!("{r} ({ctx})"));
                }
            }
            wk.kill();
        }));
    }
    for h in handles {
        h.join().expect("crash worker");
    }
    let _ = std::fs::remove_dir_all(&root);
    let found = found.lock().unwrap().clone();
    let machinery = mach.lock().unwrap().clone();
    let per_model = per_model.lock().unwrap().clone();
    let samples_v = samples.lock().unwrap().clone();
    CrashOutcome {
        histories: n_hist,
        events: n_events.load(Ordering::Relaxed),
        cuts: n_cuts.load(Ordering::Relaxed),
        images: n_images.load(Ordering::Relaxed),
        images_checked: checked.load(Ordering::Relaxed),
        cap_hits: cap_hits.load(Ordering::Relaxed),
        ok_before: ok_before.load(Ordering::Relaxed),
        ok_after: ok_after.load(Ordering::Relaxed),
        found,
        machinery,
        capped: capped.load(Ordering::Relaxed),
        samples: samples_v,
        wall_s: start.elapsed().as_secs_f64(),
        per_model,
    }
}

pub fn replay(rp: &CrashReplay) -> String {
    let root = crate::hx::scratch_root().join("crash-replay");
    crate::hx::fresh_dir(&root);
    let img: Image = rp
        .image
        .iter()
        .map(|(k, v)| {
            (
                k.clone(),
                v.as_ref().map(|h| (0..h.len() / 2).map(|i| u8::from_str_radix(&h[2 * i..2 * i + 2], 16).unwrap_or(0)).collect::<Vec<u8>>()),
            )
        })
        .collect();
    let mut wk = crate::corrupt::WorkerHandle::spawn();
    wk.timeout_s = 180;
    let r = check_image(&mut wk, &root, &rp.cfg, &img);
    wk.kill();
    let res = if rp.property == "C20" {
        match r.strip_prefix("ANS ") {
            Some(ans) => {
                let a: ImgAnswer = serde_json::from_str(ans).unwrap_or_default();
                if a.leftover.is_empty() {
                    "OK".to_string()
                } else {
                    format!("VIOLATION leftover files {:?}", a.leftover)
                }
            }
            None => "OK (not a leftover case)".to_string(),
        }
    } else if let Some(ans) = r.strip_prefix("ANS ") {
        let ans: Vec<String> = serde_json::from_str::<ImgAnswer>(ans).unwrap_or_default().ans;
        match dumps_for(&rp.cfg, &rp.ops, &root) {
            Err(e) => format!("HARNESS {e}"),
            Ok((dumps, _)) => {
                if rp.allowed.iter().any(|k| dumps.get(*k) == Some(&ans)) {
                    "OK".to_string()
                } else {
                    "VIOLATION wrong-content".to_string()
                }
            }
        }
    } else if r.starts_with("HARNESS") {
        r
    } else {
        format!("VIOLATION {r}")
    };
    let _ = std::fs::remove_dir_all(&root);
    res
}

#[allow(dead_code)]
fn _unused(_: PathBuf) {}
