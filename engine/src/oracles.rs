//! Oracles: functions from (real tree, reference model) to violations.

use crate::driver::Driver;
use crate::model::{Expect, Loc};
use lsm_tree::{AbstractTree, AnyTree, Guard, SeqNo};
use std::collections::{BTreeMap, BTreeSet};
use std::path::Path;

#[derive(Clone, Debug)]
pub struct Violation {
    /// stable signature: oracle kind (+ short detail), used for de-duplication and known findings
    pub sig: String,
    pub msg: String,
}

pub fn v(sig: impl Into<String>, msg: impl Into<String>) -> Violation {
    Violation {
        sig: sig.into(),
        msg: msg.into(),
    }
}

fn hex(b: &[u8]) -> String {
    if b.iter().all(|c| c.is_ascii_graphic()) {
        String::from_utf8_lossy(b).into_owned()
    } else {
        b.iter().map(|x| format!("{x:02x}")).collect::<String>()
    }
}

pub fn show_opt(x: &Option<Vec<u8>>) -> String {
    match x {
        None => "None".into(),
        Some(v) => hex(v),
    }
}

// ---------------------------------------------------------------------------
// reading through the public API

pub fn get(t: &AnyTree, k: &[u8], s: SeqNo) -> Result<Option<Vec<u8>>, String> {
    t.get(k, s)
        .map(|o| o.map(|v| v.to_vec()))
        .map_err(|e| format!("{e:?}"))
}

pub type Kv = (Vec<u8>, Vec<u8>);

pub fn collect_fwd(
    it: impl Iterator<Item = lsm_tree::IterGuardImpl>,
) -> Result<Vec<Kv>, String> {
    let mut out = vec![];
    for g in it {
        let (k, v) = g.into_inner().map_err(|e| format!("{e:?}"))?;
        out.push((k.to_vec(), v.to_vec()));
    }
    Ok(out)
}

pub fn scan_fwd(t: &AnyTree, s: SeqNo) -> Result<Vec<Kv>, String> {
    collect_fwd(t.iter(s, None))
}

pub fn scan_rev(t: &AnyTree, s: SeqNo) -> Result<Vec<Kv>, String> {
    collect_fwd(t.iter(s, None).rev())
}

// ---------------------------------------------------------------------------
// model agreement on reads

#[derive(Clone, Copy, Debug, Default)]
pub struct ReadOpts {
    pub point: bool,
    pub scans: bool,
    pub at_latest: bool,
    pub at_snaps: bool,
    /// also compare the seqno/type of the internal entry
    pub internal: bool,
}

pub fn absent_key() -> Vec<u8> {
    b"a\x00zz".to_vec()
}

pub fn check_reads(d: &Driver, o: ReadOpts, out: &mut Vec<Violation>) {
    let t = d.t();
    let mut snaps: Vec<(SeqNo, &'static str)> = vec![];
    if o.at_latest {
        snaps.push((SeqNo::MAX, "max"));
        snaps.push((d.visible.get(), "visible"));
    }
    if o.at_snaps {
        for s in &d.snaps {
            snaps.push((*s, "snap"));
        }
    }
    let mut keys: Vec<Vec<u8>> = d.cfg.keys.clone();
    keys.push(absent_key());

    for (s, what) in snaps {
        if o.point {
            for k in &keys {
                let exp = d.model.read(k, s);
                match get(t, k, s) {
                    Err(e) => out.push(v(
                        format!("get-err@{what}"),
                        format!("get({}, {s}) returned Err {e}", hex(k)),
                    )),
                    Ok(got) => {
                        if !exp.admits(&got) {
                            out.push(v(
                                format!("get-mismatch@{what}"),
                                format!(
                                    "get({}, {s}) = {} but model says {:?}",
                                    hex(k),
                                    show_opt(&got),
                                    exp_show(&exp)
                                ),
                            ));
                        }
                        match t.contains_key(k, s) {
                            Err(e) => out.push(v(
                                format!("contains-err@{what}"),
                                format!("contains_key({}, {s}) Err {e:?}", hex(k)),
                            )),
                            Ok(c) => {
                                if c != got.is_some() {
                                    out.push(v(
                                        format!("contains-mismatch@{what}"),
                                        format!(
                                            "contains_key({}, {s}) = {c} but get = {}",
                                            hex(k),
                                            show_opt(&got)
                                        ),
                                    ));
                                }
                            }
                        }
                        match t.size_of(k, s) {
                            Err(e) => out.push(v(
                                format!("sizeof-err@{what}"),
                                format!("size_of({}, {s}) Err {e:?}", hex(k)),
                            )),
                            Ok(sz) => {
                                if sz != got.as_ref().map(|x| x.len() as u32) {
                                    out.push(v(
                                        format!("sizeof-mismatch@{what}"),
                                        format!(
                                            "size_of({}, {s}) = {sz:?} but get = {}",
                                            hex(k),
                                            show_opt(&got)
                                        ),
                                    ));
                                }
                            }
                        }
                        if o.internal {
                            if let Expect::Exact(Some((_, Some(seq)))) = &exp {
                                match t.get_internal_entry(k, s) {
                                    Err(e) => out.push(v(
                                        format!("entry-err@{what}"),
                                        format!("get_internal_entry({}, {s}) Err {e:?}", hex(k)),
                                    )),
                                    Ok(None) => out.push(v(
                                        format!("entry-mismatch@{what}"),
                                        format!("get_internal_entry({}, {s}) = None", hex(k)),
                                    )),
                                    Ok(Some(e)) => {
                                        if e.key.seqno != *seq {
                                            out.push(v(
                                                format!("entry-seqno@{what}"),
                                                format!(
                                                    "get_internal_entry({}, {s}).seqno = {} but the write had seqno {seq}",
                                                    hex(k),
                                                    e.key.seqno
                                                ),
                                            ));
                                        }
                                    }
                                }
                            }
                        }
                    }
                }
            }
        }
        if o.scans {
            check_full_scan(d, s, what, out);
        }
    }
}

fn exp_show(e: &Expect) -> String {
    match e {
        Expect::Exact(None) => "None".into(),
        Expect::Exact(Some((v, s))) => format!("{}@{:?}", hex(v), s),
        Expect::AnyOf(set) => format!(
            "any of None,{}",
            set.iter().map(|x| hex(x)).collect::<Vec<_>>().join(",")
        ),
    }
}

/// full scan forward, reverse and len against the model
pub fn check_full_scan(d: &Driver, s: SeqNo, what: &str, out: &mut Vec<Violation>) {
    let t = d.t();
    let model = d.model.scan(s);
    let check = |got: &Vec<Kv>, dir: &str, out: &mut Vec<Violation>| {
        // order + uniqueness
        for w in got.windows(2) {
            if w[0].0 >= w[1].0 {
                out.push(v(
                    format!("scan-order-{dir}@{what}"),
                    format!(
                        "scan at {s} not strictly ascending: {} then {}",
                        hex(&w[0].0),
                        hex(&w[1].0)
                    ),
                ));
                return;
            }
        }
        let got_map: BTreeMap<&Vec<u8>, &Vec<u8>> = got.iter().map(|(k, v)| (k, v)).collect();
        let mut all_keys: BTreeSet<&Vec<u8>> = got_map.keys().copied().collect();
        all_keys.extend(model.keys());
        for k in all_keys {
            let g = got_map.get(k).map(|x| (*x).clone());
            let e = model.get(k).cloned().unwrap_or(Expect::Exact(None));
            if !e.admits(&g) {
                out.push(v(
                    format!("scan-mismatch-{dir}@{what}"),
                    format!(
                        "scan({dir}) at {s}: key {} -> {} but model says {}",
                        hex(k),
                        show_opt(&g),
                        exp_show(&e)
                    ),
                ));
                return;
            }
        }
    };
    match scan_fwd(t, s) {
        Err(e) => out.push(v(format!("scan-err@{what}"), format!("iter({s}) Err {e}"))),
        Ok(got) => {
            check(&got, "fwd", out);
            match t.len(s, None) {
                Err(e) => out.push(v(format!("len-err@{what}"), format!("len({s}) Err {e:?}"))),
                Ok(n) => {
                    if n != got.len() {
                        out.push(v(
                            format!("len-mismatch@{what}"),
                            format!("len({s}) = {n} but scan has {} items", got.len()),
                        ));
                    }
                }
            }
            match t.is_empty(s, None) {
                Err(e) => out.push(v(
                    format!("isempty-err@{what}"),
                    format!("is_empty({s}) Err {e:?}"),
                )),
                Ok(b) => {
                    if b != got.is_empty() {
                        out.push(v(
                            format!("isempty-mismatch@{what}"),
                            format!("is_empty({s}) = {b} but scan has {} items", got.len()),
                        ));
                    }
                }
            }
        }
    }
    // prefix scans go through their own entry point (BlobTree::prefix is a separate function)
    {
        let mut prefixes: Vec<Vec<u8>> = vec![vec![]];
        for k in &d.cfg.keys {
            if d.cfg.keys.len() <= 8 && !prefixes.contains(&k[..1].to_vec()) {
                prefixes.push(k[..1].to_vec());
            }
        }
        for p in prefixes {
            match collect_fwd(t.prefix(p.clone(), s, None)) {
                Err(e) => out.push(v(format!("prefix-err@{what}"), format!("prefix({}) at {s} Err {e}", hex(&p)))),
                Ok(got) => {
                    let model_p: BTreeMap<Vec<u8>, Expect> = model.iter().filter(|(k, _)| k.starts_with(&p)).map(|(k, e)| (k.clone(), e.clone())).collect();
                    let got_map: BTreeMap<&Vec<u8>, &Vec<u8>> = got.iter().map(|(k, v)| (k, v)).collect();
                    let mut all: BTreeSet<&Vec<u8>> = got_map.keys().copied().collect();
                    all.extend(model_p.keys());
                    for k in all {
                        let g = got_map.get(k).map(|x| (*x).clone());
                        let e = model_p.get(k).cloned().unwrap_or(Expect::Exact(None));
                        if !e.admits(&g) {
                            out.push(v(
                                format!("prefix-mismatch@{what}"),
                                format!("prefix({}) at {s}: key {} -> {} but model says {}", hex(&p), hex(k), show_opt(&g), exp_show(&e)),
                            ));
                            break;
                        }
                    }
                }
            }
        }
    }
    match scan_rev(t, s) {
        Err(e) => out.push(v(
            format!("scan-err-rev@{what}"),
            format!("iter({s}).rev() Err {e}"),
        )),
        Ok(mut got) => {
            got.reverse();
            check(&got, "rev", out);
        }
    }
    // one iterator consumed from both ends: (front, then everything from the back), (back, then
    // everything from the front), strictly alternating. Front items ascending + back items
    // descending must reassemble to the same ordered scan.
    for (name, lead_front, lead_back, alternate) in [("f1-back", 1usize, 0usize, false), ("b1-front", 0, 1, false), ("alternate", 0, 0, true)] {
        let mut it = t.iter(s, None);
        let mut front: Vec<Kv> = vec![];
        let mut back: Vec<Kv> = vec![];
        let mut err: Option<String> = None;
        let mut done = false;
        let mut take = |from_front: bool, it: &mut Box<dyn DoubleEndedIterator<Item = lsm_tree::IterGuardImpl> + Send>, front: &mut Vec<Kv>, back: &mut Vec<Kv>| -> Result<bool, String> {
            let g = if from_front { it.next() } else { it.next_back() };
            match g {
                None => Ok(false),
                Some(g) => {
                    let (k, val) = g.into_inner().map_err(|e| format!("{e:?}"))?;
                    if from_front {
                        front.push((k.to_vec(), val.to_vec()));
                    } else {
                        back.push((k.to_vec(), val.to_vec()));
                    }
                    Ok(true)
                }
            }
        };
        for _ in 0..lead_front {
            match take(true, &mut it, &mut front, &mut back) {
                Ok(more) => done |= !more,
                Err(e) => err = Some(e),
            }
        }
        for _ in 0..lead_back {
            match take(false, &mut it, &mut front, &mut back) {
                Ok(more) => done |= !more,
                Err(e) => err = Some(e),
            }
        }
        let mut side = lead_front == 0 && lead_back > 0 || alternate;
        while !done && err.is_none() {
            // f1-back drains from the back, b1-front from the front, alternate switches every step
            let from_front = if alternate {
                side = !side;
                !side
            } else {
                lead_back > 0
            };
            match take(from_front, &mut it, &mut front, &mut back) {
                Ok(more) => done = !more,
                Err(e) => err = Some(e),
            }
        }
        let _ = side;
        if let Some(e) = err {
            out.push(v(format!("scan-err-{name}@{what}"), format!("iter({s}) consumed from both ends ({name}) Err {e}")));
            continue;
        }
        back.reverse();
        front.extend(back);
        check(&front, name, out);
    }
}

// ---------------------------------------------------------------------------
// physical dumps (via hooks)

#[derive(Clone, Debug, PartialEq, Eq, Hash)]
pub struct Item {
    pub key: Vec<u8>,
    pub seqno: SeqNo,
    /// 0 value, 1 tombstone, 2 weak tombstone, 3 indirection
    pub vt: u8,
    pub value: Vec<u8>,
}

pub fn vt_code(vt: lsm_tree::ValueType) -> u8 {
    match vt {
        lsm_tree::ValueType::Value => 0,
        lsm_tree::ValueType::Tombstone => 1,
        lsm_tree::ValueType::WeakTombstone => 2,
        lsm_tree::ValueType::Indirection => 3,
    }
}

pub fn table_items(t: &lsm_tree::Table) -> Result<Vec<Item>, String> {
    let mut out = vec![];
    for it in t.iter() {
        let it = it.map_err(|e| format!("table {} iter: {e:?}", t.id()))?;
        out.push(Item {
            key: it.key.user_key.to_vec(),
            seqno: it.key.seqno,
            vt: vt_code(it.key.value_type),
            value: it.value.to_vec(),
        });
    }
    Ok(out)
}

pub fn memtable_items(m: &lsm_tree::Memtable) -> Vec<Item> {
    m.iter()
        .map(|it| Item {
            key: it.key.user_key.to_vec(),
            seqno: it.key.seqno,
            vt: vt_code(it.key.value_type),
            value: it.value.to_vec(),
        })
        .collect()
}

/// Shape of a version: per level, per run, per table (min key, max key, item count, global seqno)
pub type Shape = Vec<Vec<Vec<(Vec<u8>, Vec<u8>, u64, u64)>>>;

pub fn shape_of(vi: &lsm_tree::verif_hooks::VersionInfo) -> Shape {
    vi.levels
        .iter()
        .map(|l| {
            l.iter()
                .map(|r| {
                    r.iter()
                        .map(|t| {
                            (
                                t.min_key.clone(),
                                t.max_key.clone(),
                                t.item_count,
                                t.global_seqno,
                            )
                        })
                        .collect()
                })
                .collect()
        })
        .collect()
}

pub fn list_dir(p: &Path) -> BTreeSet<String> {
    let mut out = BTreeSet::new();
    if let Ok(rd) = std::fs::read_dir(p) {
        for e in rd.flatten() {
            out.insert(e.file_name().to_string_lossy().into_owned());
        }
    }
    out
}

// ---------------------------------------------------------------------------
// C07 structural audit of one version

pub fn audit_version(
    dir: &Path,
    vi: &lsm_tree::verif_hooks::VersionInfo,
    check_disk_manifest: bool,
    out: &mut Vec<Violation>,
) {
    // read order: levels ascending, runs in order
    let mut per_table: Vec<(u64, usize, usize, Vec<Item>)> = vec![]; // (id, level, run, items)
    for (li, level) in vi.levels.iter().enumerate() {
        for (ri, run) in level.iter().enumerate() {
            if run.is_empty() {
                out.push(v("audit:empty-run", format!("v{} L{li} run {ri} is empty", vi.id)));
            }
            let mut prev_last: Option<Vec<u8>> = None;
            let mut prev_meta_max: Option<Vec<u8>> = None;
            for t in run {
                if !t.path.exists() {
                    out.push(v(
                        "audit:file-missing",
                        format!("v{} names table {} but {} does not exist", vi.id, t.id, t.path.display()),
                    ));
                    continue;
                }
                let items = match table_items(&t.table) {
                    Ok(i) => i,
                    Err(e) => {
                        out.push(v("audit:table-unreadable", e));
                        continue;
                    }
                };
                if items.is_empty() {
                    out.push(v("audit:empty-table", format!("table {} has no items", t.id)));
                    continue;
                }
                // sortedness inside the table: key asc, seqno desc
                for w in items.windows(2) {
                    let ok = w[0].key < w[1].key || (w[0].key == w[1].key && w[0].seqno > w[1].seqno);
                    if !ok {
                        out.push(v(
                            "audit:table-unsorted",
                            format!("table {} items out of order: {:?} then {:?}", t.id, w[0], w[1]),
                        ));
                        break;
                    }
                }
                let first = items.first().unwrap().key.clone();
                let last = items.last().unwrap().key.clone();
                if let Some(pl) = &prev_last {
                    if *pl >= first {
                        out.push(v(
                            "audit:run-overlap",
                            format!(
                                "v{} L{li} run {ri}: table {} starts at {} but the previous table ends at {} (tables of a run must be ascending and disjoint)",
                                vi.id, t.id, hex(&first), hex(pl)
                            ),
                        ));
                    }
                }
                if let Some(pm) = &prev_meta_max {
                    if *pm >= t.min_key {
                        out.push(v(
                            "audit:run-overlap-meta",
                            format!(
                                "v{} L{li} run {ri}: table {} key_range.min {} <= previous key_range.max {}",
                                vi.id, t.id, hex(&t.min_key), hex(pm)
                            ),
                        ));
                    }
                }
                prev_last = Some(last.clone());
                prev_meta_max = Some(t.max_key.clone());

                // metadata == contents (item seqnos as stored, i.e. without the global seqno)
                let g = t.global_seqno;
                let raw_min = items.iter().map(|i| i.seqno - g).min().unwrap();
                let raw_max = items.iter().map(|i| i.seqno - g).max().unwrap();
                if t.min_key != first || t.max_key != last {
                    out.push(v(
                        "audit:meta-key-range",
                        format!(
                            "table {} key_range ({},{}) but contents span ({},{})",
                            t.id, hex(&t.min_key), hex(&t.max_key), hex(&first), hex(&last)
                        ),
                    ));
                }
                if (t.seqno_min, t.seqno_max) != (raw_min, raw_max) {
                    out.push(v(
                        "audit:meta-seqnos",
                        format!(
                            "table {} seqnos ({},{}) but contents have ({raw_min},{raw_max})",
                            t.id, t.seqno_min, t.seqno_max
                        ),
                    ));
                }
                if t.item_count != items.len() as u64 {
                    out.push(v(
                        "audit:meta-item-count",
                        format!("table {} item_count {} but {} items", t.id, t.item_count, items.len()),
                    ));
                }
                let tomb = items.iter().filter(|i| i.vt == 1 || i.vt == 2).count() as u64;
                let weak = items.iter().filter(|i| i.vt == 2).count() as u64;
                if t.tombstone_count != tomb {
                    out.push(v(
                        "audit:meta-tombstone-count",
                        format!("table {} tombstone_count {} but {} tombstones", t.id, t.tombstone_count, tomb),
                    ));
                }
                if t.weak_tombstone_count != weak {
                    out.push(v(
                        "audit:meta-weak-tombstone-count",
                        format!("table {} weak_tombstone_count {} but {} weak tombstones", t.id, t.weak_tombstone_count, weak),
                    ));
                }
                // NOTE: `metadata.file_size` is the byte position after the data blocks, not the
                // length of the file, and the property does not mention it: not audited.
                per_table.push((t.id, li, ri, items));
            }
        }
    }

    // precedence: a table consulted earlier holds only newer seqnos for a shared key
    for i in 0..per_table.len() {
        let mut a: BTreeMap<&Vec<u8>, (SeqNo, SeqNo)> = BTreeMap::new();
        for it in &per_table[i].3 {
            let e = a.entry(&it.key).or_insert((it.seqno, it.seqno));
            e.0 = e.0.min(it.seqno);
            e.1 = e.1.max(it.seqno);
        }
        for j in (i + 1)..per_table.len() {
            if per_table[i].1 == per_table[j].1 && per_table[i].2 == per_table[j].2 {
                continue; // same run: disjointness checked above
            }
            let mut b: BTreeMap<&Vec<u8>, SeqNo> = BTreeMap::new();
            for it in &per_table[j].3 {
                let e = b.entry(&it.key).or_insert(it.seqno);
                *e = (*e).max(it.seqno);
            }
            for (k, (amin, _)) in &a {
                if let Some(bmax) = b.get(*k) {
                    if amin <= bmax {
                        out.push(v(
                            "audit:precedence",
                            format!(
                                "v{}: table {} (L{} run {}) is consulted before table {} (L{} run {}) but holds seqno {} for key {} while the later one holds {}",
                                vi.id, per_table[i].0, per_table[i].1, per_table[i].2,
                                per_table[j].0, per_table[j].1, per_table[j].2, amin, hex(k), bmax
                            ),
                        ));
                    }
                }
            }
        }
    }

    for bf in &vi.blob_files {
        if !bf.path.exists() {
            out.push(v(
                "audit:blob-file-missing",
                format!("v{} names blob file {} but it does not exist", vi.id, bf.id),
            ));
        }
    }

    if check_disk_manifest {
        match crate::manifest::decode_version_file(&dir.join(format!("v{}", vi.id))) {
            Err(e) => out.push(v(
                "audit:manifest-undecodable",
                format!("v{} on disk does not decode: {e}", vi.id),
            )),
            Ok(m) => {
                let mem: Vec<Vec<Vec<(u64, u128, u64)>>> = vi
                    .levels
                    .iter()
                    .map(|l| {
                        l.iter()
                            .map(|r| r.iter().map(|t| (t.id, t.checksum, t.global_seqno)).collect())
                            .collect()
                    })
                    .collect();
                if m.tables != mem {
                    out.push(v(
                        "audit:manifest-tables",
                        format!("v{} on disk lists tables {:?} but the published version has {:?}", vi.id, m.tables, mem),
                    ));
                }
                let mem_b: Vec<(u64, u128)> = vi.blob_files.iter().map(|b| (b.id, b.checksum)).collect();
                let mut disk_b = m.blob_files.clone();
                disk_b.sort();
                if disk_b != mem_b {
                    out.push(v(
                        "audit:manifest-blob-files",
                        format!("v{} on disk lists blob files {:?} but the published version has {:?}", vi.id, disk_b, mem_b),
                    ));
                }
                let mem_gc: Vec<(u64, u32, u64, u64)> = vi
                    .gc_stats
                    .iter()
                    .map(|g| (g.id, g.len as u32, g.bytes, g.on_disk_bytes))
                    .collect();
                let mut disk_gc = m.gc_stats.clone();
                disk_gc.sort();
                if disk_gc != mem_gc {
                    out.push(v(
                        "audit:manifest-gc-stats",
                        format!("v{} on disk gc stats {:?} but the published version has {:?}", vi.id, disk_gc, mem_gc),
                    ));
                }
            }
        }
        match crate::manifest::read_current(dir) {
            Err(e) => out.push(v("audit:current-unreadable", e)),
            Ok((id, _)) => {
                if id != vi.id {
                    out.push(v(
                        "audit:current-id",
                        format!("`current` names v{id} but the published version is v{}", vi.id),
                    ));
                }
            }
        }
    }
}

pub fn check_c07(d: &Driver, out: &mut Vec<Violation>) {
    let hist = lsm_tree::verif_hooks::history(d.inner());
    let last = hist.last().unwrap();
    audit_version(&d.dir, &last.version, true, out);
}

// ---------------------------------------------------------------------------
// C18 high-water marks

pub fn check_c18(d: &Driver, out: &mut Vec<Violation>) {
    let hist = lsm_tree::verif_hooks::history(d.inner());
    let last = hist.last().unwrap();
    let mut persisted: Option<SeqNo> = None;
    for l in &last.version.levels {
        for r in l {
            for t in r {
                match table_items(&t.table) {
                    Ok(items) => {
                        for it in items {
                            persisted = persisted.max(Some(it.seqno));
                        }
                    }
                    Err(e) => out.push(v("seqno:table-unreadable", e)),
                }
            }
        }
    }
    let mut mem: Option<SeqNo> = None;
    for it in memtable_items(&last.active) {
        mem = mem.max(Some(it.seqno));
    }
    for m in &last.sealed {
        for it in memtable_items(m) {
            mem = mem.max(Some(it.seqno));
        }
    }
    let t = d.t();
    let gp = t.get_highest_persisted_seqno();
    if gp != persisted {
        out.push(v(
            "seqno:persisted",
            format!("get_highest_persisted_seqno() = {gp:?} but the tables hold max seqno {persisted:?}"),
        ));
    }
    let gm = t.get_highest_memtable_seqno();
    if gm != mem {
        out.push(v(
            "seqno:memtable",
            format!("get_highest_memtable_seqno() = {gm:?} but the memtables hold max seqno {mem:?}"),
        ));
    }
    let gh = t.get_highest_seqno();
    if gh != persisted.max(mem) {
        out.push(v(
            "seqno:overall",
            format!("get_highest_seqno() = {gh:?} but stored max is {:?}", persisted.max(mem)),
        ));
    }
    // model cross-check: persisted mark never below a persisted model write that is still visible
    // (GC may remove older versions but never the newest persisted write of a key)
    let _ = Loc::Persisted;
}

// ---------------------------------------------------------------------------
// C20 file reclamation

pub struct Listing {
    pub root: BTreeSet<String>,
    pub tables: BTreeSet<String>,
    pub blobs: BTreeSet<String>,
}

pub fn listing(dir: &Path) -> Listing {
    Listing {
        root: list_dir(dir),
        tables: list_dir(&dir.join("tables")),
        blobs: list_dir(&dir.join("blobs")),
    }
}

fn is_version_file(n: &str) -> bool {
    n.len() > 1 && n.starts_with('v') && n[1..].chars().all(|c| c.is_ascii_digit())
}

/// Safety: every file named by any entry of the version history exists.
pub fn check_c20_safety(d: &Driver, out: &mut Vec<Violation>) {
    let hist = lsm_tree::verif_hooks::history(d.inner());
    let l = listing(&d.dir);
    for sv in &hist {
        if !l.root.contains(&format!("v{}", sv.version.id)) {
            out.push(v(
                "files:version-file-missing",
                format!("version history holds v{} (seqno {}) but the file is gone", sv.version.id, sv.seqno),
            ));
        }
        for t in sv.version.levels.iter().flatten().flatten() {
            if !l.tables.contains(&t.id.to_string()) {
                out.push(v(
                    "files:table-missing",
                    format!("v{} (in history, seqno {}) names table {} which is not on disk", sv.version.id, sv.seqno, t.id),
                ));
            }
        }
        for b in &sv.version.blob_files {
            if !l.blobs.contains(&b.id.to_string()) {
                out.push(v(
                    "files:blob-missing",
                    format!("v{} (in history, seqno {}) names blob file {} which is not on disk", sv.version.id, sv.seqno, b.id),
                ));
            }
        }
    }
}

/// Reclamation: the directory holds exactly what the current version names.
pub fn check_c20_exact(d: &Driver, why: &str, out: &mut Vec<Violation>) {
    let hist = lsm_tree::verif_hooks::history(d.inner());
    let cur = &hist.last().unwrap().version;
    let l = listing(&d.dir);
    let want_tables: BTreeSet<String> = cur
        .levels
        .iter()
        .flatten()
        .flatten()
        .map(|t| t.id.to_string())
        .collect();
    let want_blobs: BTreeSet<String> = cur.blob_files.iter().map(|b| b.id.to_string()).collect();
    for extra in l.tables.difference(&want_tables) {
        out.push(v(
            "files:table-leaked",
            format!("{why}: tables/{extra} is on disk but the current version v{} does not name it", cur.id),
        ));
    }
    for extra in l.blobs.difference(&want_blobs) {
        out.push(v(
            "files:blob-leaked",
            format!("{why}: blobs/{extra} is on disk but the current version v{} does not name it", cur.id),
        ));
    }
    for n in &l.root {
        if is_version_file(n) && *n != format!("v{}", cur.id) {
            out.push(v(
                "files:version-leaked",
                format!("{why}: {n} is on disk but the current version is v{}", cur.id),
            ));
        }
    }
}
