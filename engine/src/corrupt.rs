//! `corrupt` (C10): every byte of every persisted file x single-bit flips / 0x00 / 0xFF / truncation.
//! Each mutant is opened cold in a worker subprocess and the whole read workload is run; only a
//! *different answer* is a violation - errors, panics, aborts and timeouts are loud failures.

use crate::driver::{Driver, TreeCfg};
use crate::ops::{IKind, Op, Wm};
use lsm_tree::{AbstractTree, Guard, SeqNo};
use serde::{Deserialize, Serialize};
use std::io::{BufRead, BufReader, Write};
use std::path::{Path, PathBuf};
use std::process::{Child, ChildStdin, ChildStdout, Command, Stdio};
use std::sync::atomic::{AtomicU64, Ordering};
use std::sync::{Arc, Mutex};

#[derive(Clone, Debug, Serialize, Deserialize)]
pub struct Subject {
    pub name: String,
    pub cfg: TreeCfg,
    pub ops: Vec<Op>,
}

#[derive(Clone, Debug, Serialize, Deserialize)]
pub struct Job {
    pub subject_dir: String,
    pub scratch: String,
    pub cfg: TreeCfg,
    pub snaps: Vec<u64>,
    pub file: String,
    /// "flip" (xor mask), "set" (byte := mask), "trunc" (new length = offset)
    pub kind: String,
    pub offset: u64,
    pub mask: u8,
}

#[derive(Clone, Debug, Serialize, Deserialize)]
pub struct CorruptReplay {
    pub engine: String,
    pub property: String,
    pub subject: Subject,
    pub file: String,
    pub kind: String,
    pub offset: u64,
    pub mask: u8,
    pub sig: String,
    pub msg: String,
}

pub fn copy_dir(from: &Path, to: &Path) -> std::io::Result<()> {
    std::fs::create_dir_all(to)?;
    for e in std::fs::read_dir(from)? {
        let e = e?;
        let p = e.path();
        let dst = to.join(e.file_name());
        if p.is_dir() {
            copy_dir(&p, &dst)?;
        } else {
            std::fs::copy(&p, &dst)?;
        }
    }
    Ok(())
}

/// Reads everything; with `with_compaction` a major compaction and a second round of reads follow.
/// `tolerant`: a call that returns an error is recorded as `ERR` and the workload goes on (C10: after
/// an error later calls must still not serve different data); otherwise the first error ends it.
pub fn workload_ext(cfg: &TreeCfg, dir: &Path, snaps: &[u64], with_compaction: bool) -> Result<Vec<String>, String> {
    workload_full(cfg, dir, snaps, with_compaction, false)
}

pub fn workload_full(cfg: &TreeCfg, dir: &Path, snaps: &[u64], with_compaction: bool, tolerant: bool) -> Result<Vec<String>, String> {
    let mut d = DriverLite::open(cfg, dir)?;
    let t = d.tree.take().unwrap();
    let mut out: Vec<String> = vec![];
    let mut keys = cfg.keys.clone();
    keys.push(crate::oracles::absent_key());
    keys.push(b"zzz".to_vec());
    let mut ss: Vec<u64> = snaps.to_vec();
    ss.push(SeqNo::MAX);
    let e = |x: lsm_tree::Error| format!("{x:?}");
    // records one answer; Err(..) means "stop" (strict mode)
    let mut rec = |label: String, r: Result<String, String>| -> Result<(), String> {
        match r {
            Ok(v) => {
                out.push(format!("{label} = {v}"));
                Ok(())
            }
            Err(x) if tolerant => {
                out.push(format!("{label} = ERR {x}"));
                Ok(())
            }
            Err(x) => Err(x),
        }
    };
    let scan = |it: Box<dyn DoubleEndedIterator<Item = lsm_tree::IterGuardImpl> + Send>, rev: bool| -> Result<String, String> {
        let mut v = vec![];
        let mut it = it;
        loop {
            let g = if rev { it.next_back() } else { it.next() };
            let Some(g) = g else { break };
            let (k, val) = g.into_inner().map_err(e)?;
            v.push((k.to_vec(), val.to_vec()));
        }
        Ok(format!("{v:?}"))
    };
    for &s in &ss {
        for k in &keys {
            rec(format!("get {k:?}@{s}"), t.get(k, s).map_err(e).map(|o| format!("{:?}", o.map(|v| v.to_vec()))))?;
            rec(format!("contains {k:?}@{s}"), t.contains_key(k, s).map_err(e).map(|o| format!("{o:?}")))?;
            rec(format!("size_of {k:?}@{s}"), t.size_of(k, s).map_err(e).map(|o| format!("{o:?}")))?;
        }
        rec(format!("scan@{s}"), scan(t.iter(s, None), false))?;
        rec(format!("scan_rev@{s}"), scan(t.iter(s, None), true))?;
        rec(format!("len@{s}"), t.len(s, None).map_err(e).map(|n| n.to_string()))?;
        rec(
            format!("first@{s}"),
            t.first_key_value(s, None).map(|g| g.into_inner().map(|(k, v)| (k.to_vec(), v.to_vec()))).transpose().map_err(e).map(|o| format!("{o:?}")),
        )?;
        rec(
            format!("last@{s}"),
            t.last_key_value(s, None).map(|g| g.into_inner().map(|(k, v)| (k.to_vec(), v.to_vec()))).transpose().map_err(e).map(|o| format!("{o:?}")),
        )?;
        rec(format!("range[k0..]@{s}"), scan(t.range::<Vec<u8>, _>(cfg.keys[0].clone().., s, None), false))?;
    }
    if with_compaction {
        // a compaction must not launder damaged data into well-formed tables
        rec("major_compact".to_string(), t.major_compact(u64::MAX, 0).map_err(e).map(|()| "ok".to_string()))?;
        for k in &keys {
            rec(format!("after-compaction get {k:?}"), t.get(k, SeqNo::MAX).map_err(e).map(|o| format!("{:?}", o.map(|v| v.to_vec()))))?;
        }
        rec("after-compaction scan".to_string(), scan(t.iter(SeqNo::MAX, None), false))?;
        rec("after-compaction scan_rev".to_string(), scan(t.iter(SeqNo::MAX, None), true))?;
    }
    Ok(out)
}

/// All read answers of the workload, one line per call.
pub fn workload(cfg: &TreeCfg, dir: &Path, snaps: &[u64]) -> Result<Vec<String>, String> {
    workload_ext(cfg, dir, snaps, false)
}

/// Files in the tree directory that the version recovered by a fresh open does not name.
pub fn leftover_files(cfg: &TreeCfg, dir: &Path) -> Vec<String> {
    let mut leftover: Vec<String> = vec![];
    if let Ok(mut d) = DriverLite::open(cfg, dir) {
        let t = d.tree.take().unwrap();
        let inner = match &t {
            lsm_tree::AnyTree::Standard(t) => t.clone(),
            lsm_tree::AnyTree::Blob(b) => b.index.clone(),
        };
        let hist = lsm_tree::verif_hooks::history(&inner);
        if let Some(cur) = hist.last() {
            let tables: std::collections::BTreeSet<String> = cur.version.levels.iter().flatten().flatten().map(|t| t.id.to_string()).collect();
            let blobs: std::collections::BTreeSet<String> = cur.version.blob_files.iter().map(|b| b.id.to_string()).collect();
            for f in crate::oracles::list_dir(&dir.join("tables")) {
                if !tables.contains(&f) {
                    leftover.push(format!("tables/{f}"));
                }
            }
            for f in crate::oracles::list_dir(&dir.join("blobs")) {
                if !blobs.contains(&f) {
                    leftover.push(format!("blobs/{f}"));
                }
            }
            for f in crate::oracles::list_dir(dir) {
                if f.len() > 1 && f.starts_with('v') && f[1..].chars().all(|c| c.is_ascii_digit()) && f != format!("v{}", cur.version.id) {
                    leftover.push(f);
                }
            }
        }
    }
    leftover
}

/// Recovery check of a crash image: open + read everything, then write / flush / compact / read.
pub fn image_check(cfg: &TreeCfg, dir: &Path) -> String {
    let ans = match workload(cfg, dir, &[]) {
        Ok(a) => a,
        Err(e) => return format!("ERR {e}"),
    };
    // C20: after a recovery the directory holds nothing but what the recovered version names
    let leftover = leftover_files(cfg, dir);
    // the recovered tree must be usable without colliding with leftovers, and what it then writes
    // must itself be recoverable:
    //  (A) the first version change after the recovery is a merging compaction (its version file is
    //      shorter than any left-over one); a reopen must then read exactly what the recovery read;
    //  (B) write / flush / compact / read, reopen again: the old keys still read the same.
    let cont = (|| -> Result<(), String> {
        {
            let mut d = DriverLite::open(cfg, dir)?;
            let t = d.tree.take().unwrap();
            t.major_compact(u64::MAX, 0).map_err(|e| format!("major_compact right after recovery: {e:?}"))?;
        }
        let again = workload(cfg, dir, &[]).map_err(|e| format!("reopen after [recover, major_compact]: {e}"))?;
        if again != ans {
            return Err(format!("[recover, major_compact, reopen] reads differ from the recovery's: {}", crate::fsx::diff_lines(&ans, &again)));
        }
        {
            let mut d = DriverLite::open(cfg, dir)?;
            let t = d.tree.take().unwrap();
            let s = t.get_highest_persisted_seqno().map_or(1, |x| x + 1);
            let key = b"zz-after-crash".to_vec();
            t.insert(key.clone(), b"alive".to_vec(), s);
            t.flush_active_memtable(0).map_err(|e| format!("flush: {e:?}"))?;
            t.major_compact(u64::MAX, 0).map_err(|e| format!("major_compact: {e:?}"))?;
            let got = t.get(&key, SeqNo::MAX).map_err(|e| format!("get: {e:?}"))?;
            if got.as_deref() != Some(&b"alive"[..]) {
                return Err(format!("the key written after recovery reads {got:?}"));
            }
            for k in &cfg.keys {
                t.get(k, SeqNo::MAX).map_err(|e| format!("get after compaction: {e:?}"))?;
            }
        }
        let last = workload(cfg, dir, &[]).map_err(|e| format!("reopen after [recover, major_compact, reopen, insert, flush, major_compact]: {e}"))?;
        let point = |v: &[String]| v.iter().filter(|l| l.starts_with("get ") || l.starts_with("contains ") || l.starts_with("size_of ")).cloned().collect::<Vec<_>>();
        if point(&last) != point(&ans) {
            return Err(format!("point reads of the old keys changed after [write, flush, compact, reopen]: {}", crate::fsx::diff_lines(&point(&ans), &point(&last))));
        }
        Ok(())
    })();
    if let Err(e) = cont {
        return format!("CONT {e}");
    }
    format!("ANS {}", serde_json::to_string(&serde_json::json!({"ans": ans, "leftover": leftover})).unwrap())
}

/// Minimal opener (no model): fresh cache, fresh descriptor table, fresh counters.
pub struct DriverLite {
    pub tree: Option<lsm_tree::AnyTree>,
}

impl DriverLite {
    pub fn open(cfg: &TreeCfg, dir: &Path) -> Result<Self, String> {
        // reuse Driver's config builder through a throw-away Driver-like struct
        let d = Driver {
            dir: dir.to_path_buf(),
            cfg: cfg.clone(),
            shared: Default::default(),
            tree: None,
            seqno: Default::default(),
            visible: Default::default(),
            model: Default::default(),
            snaps: vec![],
            opidx: 0,
            clock: 0,
            clock_ms: 0,
            filter_log: None,
            last_op_info: Default::default(),
            value_tag: b'v',
            history: vec![],
            partial_files_possible: false,
        };
        let t = d.build_config().open().map_err(|e| format!("open: {e:?}"))?;
        Ok(Self { tree: Some(t) })
    }
}

fn mutate(path: &Path, kind: &str, offset: u64, mask: u8) -> std::io::Result<()> {
    let mut b = std::fs::read(path)?;
    match kind {
        "flip" => b[offset as usize] ^= mask,
        "set" => b[offset as usize] = mask,
        "trunc" => b.truncate(offset as usize),
        _ => {}
    }
    std::fs::write(path, b)
}

/// Worker main loop: one JSON job per line on stdin, one result line on stdout.
pub fn worker_main() -> i32 {
    unsafe {
        // make absurd allocations fail fast instead of thrashing
        let lim = libc::rlimit {
            rlim_cur: 4 << 30,
            rlim_max: 4 << 30,
        };
        libc::setrlimit(libc::RLIMIT_AS, &lim);
    }
    let stdin = std::io::stdin();
    let mut baselines: std::collections::HashMap<String, Vec<String>> = Default::default();
    for line in stdin.lock().lines() {
        let Ok(line) = line else { break };
        let job: Job = match serde_json::from_str(&line) {
            Ok(j) => j,
            Err(e) => {
                println!("HARNESS bad job: {e}");
                continue;
            }
        };
        let scratch = PathBuf::from(&job.scratch);
        if job.kind == "image" {
            let res = std::panic::catch_unwind(|| image_check(&job.cfg, &scratch));
            let out = match res {
                Err(p) => format!("PANIC {}", crate::hx::panic_message(&p).replace('\n', " ")),
                Ok(s) => s.replace('\n', " "),
            };
            println!("{out}");
            let _ = std::io::stdout().flush();
            continue;
        }
        let _ = std::fs::remove_dir_all(&scratch);
        let res = std::panic::catch_unwind(|| {
            let subj = PathBuf::from(&job.subject_dir);
            copy_dir(&subj, &scratch).map_err(|e| format!("HARNESS copy: {e}"))?;
            if job.kind != "none" {
                mutate(&scratch.join(&job.file), &job.kind, job.offset, job.mask).map_err(|e| format!("HARNESS mutate: {e}"))?;
            }
            workload_full(&job.cfg, &scratch, &job.snaps, true, true).map_err(|e| format!("ERR {e}"))
        });
        let _ = std::fs::remove_dir_all(&scratch);
        let out = match res {
            Err(p) => format!("PANIC {}", crate::hx::panic_message(&p).replace('\n', " ")),
            Ok(Err(e)) => e.replace('\n', " "),
            Ok(Ok(ans)) => {
                if job.kind == "none" {
                    baselines.insert(job.subject_dir.clone(), ans);
                    "BASE".to_string()
                } else {
                    match baselines.get(&job.subject_dir) {
                        None => "HARNESS no baseline".to_string(),
                        Some(b) => {
                            if *b == ans {
                                "SAME".to_string()
                            } else if b.len() != ans.len() {
                                "HARNESS different number of answers".to_string()
                            } else {
                                // every answer either equals the pristine one or is an error
                                let bad = b.iter().zip(ans.iter()).find(|(x, y)| x != y && !y.contains(" = ERR "));
                                match bad {
                                    Some((x, y)) => format!("DIFF baseline `{x}` mutant `{y}`").replace('\n', " "),
                                    None => {
                                        let first = b.iter().zip(ans.iter()).find(|(x, y)| x != y).map(|(_, y)| y.clone()).unwrap_or_default();
                                        format!("ERR {}", first.chars().take(160).collect::<String>())
                                    }
                                }
                            }
                        }
                    }
                }
            }
        };
        println!("{out}");
        let _ = std::io::stdout().flush();
    }
    0
}

pub struct WorkerHandle {
    child: Child,
    stdin: ChildStdin,
    stdout: BufReader<ChildStdout>,
    based: std::collections::HashSet<String>,
    /// watchdog for one job (seconds)
    pub timeout_s: u64,
}

impl WorkerHandle {
    pub fn spawn() -> Self {
        let exe = std::env::current_exe().expect("current exe");
        let mut child = Command::new(exe)
            .arg("corrupt-worker")
            .stdin(Stdio::piped())
            .stdout(Stdio::piped())
            .stderr(Stdio::null())
            .spawn()
            .expect("spawn worker");
        let stdin = child.stdin.take().unwrap();
        let stdout = BufReader::new(child.stdout.take().unwrap());
        Self {
            child,
            stdin,
            stdout,
            based: Default::default(),
            timeout_s: 20,
        }
    }

    /// Sends one job; returns the result line, or "ABORT"/"TIMEOUT" if the worker died / hung.
    pub fn kill(&mut self) {
        let _ = self.child.kill();
        let _ = self.child.wait();
    }

    /// Opens an already materialised directory (a crash image), reads everything and checks that the
    /// tree can go on being written, flushed and compacted.
    pub fn run_image(&mut self, dir: &Path, cfg: &TreeCfg) -> String {
        let job = Job {
            subject_dir: dir.to_string_lossy().into_owned(),
            scratch: dir.to_string_lossy().into_owned(),
            cfg: cfg.clone(),
            snaps: vec![],
            file: String::new(),
            kind: "image".into(),
            offset: 0,
            mask: 0,
        };
        self.run(&job)
    }

    pub fn run(&mut self, job: &Job) -> String {
        let line = serde_json::to_string(job).unwrap();
        if writeln!(self.stdin, "{line}").is_err() {
            return "ABORT".into();
        }
        let _ = self.stdin.flush();
        // watchdog: kill the child if it does not answer in time
        let pid = self.child.id() as i32;
        let timeout_s = self.timeout_s;
        let done = Arc::new(std::sync::atomic::AtomicBool::new(false));
        let timed_out = Arc::new(std::sync::atomic::AtomicBool::new(false));
        let (d2, t2) = (done.clone(), timed_out.clone());
        let wd = std::thread::spawn(move || {
            let start = std::time::Instant::now();
            while !d2.load(Ordering::Relaxed) {
                if start.elapsed().as_secs() >= timeout_s {
                    t2.store(true, Ordering::Relaxed);
                    unsafe {
                        libc::kill(pid, libc::SIGKILL);
                    }
                    return;
                }
                std::thread::sleep(std::time::Duration::from_millis(2));
            }
        });
        let mut buf = String::new();
        let r = self.stdout.read_line(&mut buf);
        done.store(true, Ordering::Relaxed);
        let _ = wd.join();
        match r {
            Ok(n) if n > 0 => buf.trim_end().to_string(),
            _ => {
                if timed_out.load(Ordering::Relaxed) {
                    "TIMEOUT".into()
                } else {
                    "ABORT".into()
                }
            }
        }
    }
}

pub fn subjects(tier: &str) -> Vec<Subject> {
    let quick = tier == "quick";
    let ab = crate::driver::keys_ab();
    let fl = Op::Flush { w: Wm::Zero };
    let mut v = vec![];
    let base = TreeCfg::small(ab.clone());
    let mut big_blocks = TreeCfg::small(ab.clone());
    big_blocks.block_size = 4096;
    // two L0 tables with an overwritten key, snapshot between them
    v.push(Subject {
        name: "two-l0-tables".into(),
        cfg: big_blocks.clone(),
        ops: vec![Op::MultiPut { ks: vec![0, 1] }, fl.clone(), Op::Snap, Op::Put { k: 0, big: false }, Op::Del { k: 1 }, fl.clone()],
    });
    // a run of several tables (compaction output split by a tiny table target)
    v.push(Subject {
        name: "multi-table-run".into(),
        cfg: TreeCfg::small(crate::driver::keys_abc()),
        ops: vec![Op::MultiPut { ks: vec![0, 1, 2] }, fl.clone(), Op::Major { w: Wm::Zero, target: 1 }],
    });
    // blob tree
    v.push(Subject {
        name: "blob".into(),
        cfg: big_blocks.clone().with_blob(1),
        ops: vec![Op::MultiPut { ks: vec![0, 1] }, fl.clone(), Op::Snap, Op::Put { k: 0, big: true }, fl.clone()],
    });
    // index and filter blocks loaded on demand (not pinned in memory): every read goes through the
    // block loader of the full (non-partitioned) index
    {
        let mut unp = big_blocks.clone();
        unp.pin_index = false;
        unp.pin_filter = false;
        v.push(Subject {
            name: "unpinned-index-filter".into(),
            cfg: unp,
            ops: vec![Op::MultiPut { ks: vec![0, 1] }, fl.clone(), Op::Snap, Op::Put { k: 0, big: false }, fl.clone()],
        });
    }
    {
        let mut part = big_blocks.clone();
        part.index_partitioning = true;
        part.filter_partitioning = true;
        part.pin_index = false;
        part.pin_filter = false;
        v.push(Subject {
            name: "partitioned-unpinned".into(),
            cfg: part,
            ops: vec![Op::MultiPut { ks: vec![0, 1] }, fl.clone(), Op::Snap, Op::Put { k: 0, big: false }, fl.clone()],
        });
        let mut hash = big_blocks.clone();
        hash.hash_ratio = 8.0;
        hash.restart_interval = 1;
        v.push(Subject {
            name: "hash-index".into(),
            cfg: hash,
            ops: vec![Op::MultiPut { ks: vec![0, 1] }, Op::Put { k: 0, big: false }, fl.clone()],
        });
    }
    {
        // ingestion: non-zero global seqno
        v.push(Subject {
            name: "ingested".into(),
            cfg: big_blocks.clone(),
            ops: vec![Op::MultiPut { ks: vec![0, 1] }, fl.clone(), Op::Snap, Op::Ingest { items: vec![(0, IKind::Val), (1, IKind::Tomb)] }],
        });
    }
    {
        // lz4-compressed data blocks, index blocks and blobs (the length fields that size the
        // decompression buffers are part of what gets corrupted)
        let mut lz = big_blocks.clone().with_blob(16);
        lz.lz4 = true;
        v.push(Subject {
            name: "lz4-blob".into(),
            cfg: lz,
            ops: vec![Op::Put { k: 0, big: true }, Op::Put { k: 1, big: false }, fl.clone(), Op::Snap, Op::Put { k: 1, big: true }, fl.clone()],
        });
    }
    if !quick {
        let mut pp = big_blocks.clone();
        pp.index_partitioning = true;
        pp.filter_partitioning = true;
        v.push(Subject {
            name: "partitioned-pinned".into(),
            cfg: pp,
            ops: vec![Op::MultiPut { ks: vec![0, 1] }, fl.clone(), Op::Snap, Op::Put { k: 0, big: false }, fl.clone()],
        });
        v.push(Subject { name: "one-table".into(), cfg: base.clone(), ops: vec![Op::MultiPut { ks: vec![0, 1] }, fl.clone()] });
        // after a major compaction with watermark 0: old version files still on disk
        v.push(Subject {
            name: "major-old-versions".into(),
            cfg: base.clone(),
            ops: vec![Op::MultiPut { ks: vec![0, 1] }, fl.clone(), Op::Snap, Op::Put { k: 0, big: false }, fl.clone(), Op::Major { w: Wm::Zero, target: u64::MAX }],
        });
        v.push(Subject {
            name: "blob-relocated".into(),
            cfg: {
                let mut c = big_blocks.clone().with_blob(1);
                if let Some(b) = &mut c.blob {
                    b.staleness = 0.0;
                    b.age_cutoff = 1.0;
                }
                c
            },
            ops: vec![Op::MultiPut { ks: vec![0, 1] }, fl.clone(), Op::Put { k: 0, big: true }, fl.clone(), Op::Major { w: Wm::Tight, target: u64::MAX }],
        });
    }
    v
}

pub struct Outcome {
    pub mutants: u64,
    pub same: u64,
    pub err: u64,
    pub panic: u64,
    pub abort: u64,
    pub timeout: u64,
    pub diff: u64,
    pub files: u64,
    pub bytes: u64,
    pub found: Vec<CorruptReplay>,
    pub samples: Vec<serde_json::Value>,
    pub capped: bool,
    pub loud: Vec<String>,
    pub wall_s: f64,
    pub harness_errors: Vec<String>,
}

pub fn rel_files_pub(root: &Path) -> Vec<String> {
    rel_files(root)
}

fn rel_files(root: &Path) -> Vec<String> {
    let mut v = vec![];
    fn walk(root: &Path, p: &Path, v: &mut Vec<String>) {
        if let Ok(rd) = std::fs::read_dir(p) {
            let mut es: Vec<_> = rd.flatten().collect();
            es.sort_by_key(|e| e.file_name());
            for e in es {
                let path = e.path();
                if path.is_dir() {
                    walk(root, &path, v);
                } else {
                    v.push(path.strip_prefix(root).unwrap().to_string_lossy().into_owned());
                }
            }
        }
    }
    walk(root, root, &mut v);
    v
}

pub fn file_class(rel: &str) -> &'static str {
    if rel == "current" {
        "current"
    } else if rel.starts_with("tables/") {
        "table"
    } else if rel.starts_with("blobs/") {
        "blob"
    } else if rel.starts_with('v') {
        "version"
    } else {
        "other"
    }
}

/// Builds a subject on disk; returns (dir, snapshot seqnos).
pub fn build_subject(s: &Subject, dir: &Path) -> Result<Vec<u64>, String> {
    crate::hx::fresh_dir(dir);
    let mut d = Driver::new(dir, s.cfg.clone())?;
    for op in &s.ops {
        let info = d.apply(op);
        if let Some(e) = info.err {
            return Err(format!("building subject {}: {e}", s.name));
        }
    }
    let snaps = d.snaps.clone();
    drop(d);
    Ok(snaps)
}

pub fn run(tier: &str, threads: usize, max_wall_s: f64) -> Outcome {
    let start = std::time::Instant::now();
    let quick = tier == "quick";
    let root = crate::hx::scratch_root().join("corrupt");
    crate::hx::fresh_dir(&root);
    let mut jobs: Vec<(Subject, Job)> = vec![];
    let mut files = 0u64;
    let mut bytes = 0u64;
    let mut harness_errors = vec![];
    let subs = subjects(tier);
    let mut base_jobs = vec![];
    for s in &subs {
        let dir = root.join(format!("subject-{}", s.name));
        let snaps = match build_subject(s, &dir) {
            Ok(x) => x,
            Err(e) => {
                harness_errors.push(e);
                continue;
            }
        };
        let mk = |file: &str, kind: &str, offset: u64, mask: u8| Job {
            subject_dir: dir.to_string_lossy().into_owned(),
            scratch: String::new(),
            cfg: s.cfg.clone(),
            snaps: snaps.clone(),
            file: file.to_string(),
            kind: kind.to_string(),
            offset,
            mask,
        };
        base_jobs.push((s.clone(), mk("", "none", 0, 0)));
        for f in rel_files(&dir) {
            let len = std::fs::metadata(dir.join(&f)).map(|m| m.len()).unwrap_or(0);
            files += 1;
            bytes += len;
            let masks: Vec<u8> = if quick { vec![0x01, 0x80] } else { vec![1, 2, 4, 8, 16, 32, 64, 128] };
            for off in 0..len {
                for m in &masks {
                    jobs.push((s.clone(), mk(&f, "flip", off, *m)));
                }
                if !quick {
                    jobs.push((s.clone(), mk(&f, "set", off, 0x00)));
                    jobs.push((s.clone(), mk(&f, "set", off, 0xFF)));
                }
            }
            let step = if quick && len > 64 { 7 } else { 1 };
            let mut l = 0;
            while l < len {
                jobs.push((s.clone(), mk(&f, "trunc", l, 0)));
                l += step;
            }
        }
    }
    // small files first (current, version files): they are where structure lives
    jobs.sort_by_key(|(_, j)| (file_class(&j.file) == "table" || file_class(&j.file) == "blob") as u8);

    let total = jobs.len();
    let jobs = Arc::new(jobs);
    let base_jobs = Arc::new(base_jobs);
    let next = Arc::new(AtomicU64::new(0));
    let counters: Arc<[AtomicU64; 6]> = Arc::new(Default::default());
    let found: Arc<Mutex<Vec<CorruptReplay>>> = Arc::new(Mutex::new(vec![]));
    let loud: Arc<Mutex<std::collections::BTreeMap<String, u64>>> = Arc::new(Mutex::new(Default::default()));
    let herr: Arc<Mutex<Vec<String>>> = Arc::new(Mutex::new(harness_errors));
    let capped = Arc::new(std::sync::atomic::AtomicBool::new(false));
    let mut hs = vec![];
    for w in 0..threads {
        let (jobs, base_jobs, next, counters, found, loud, herr, capped) =
            (jobs.clone(), base_jobs.clone(), next.clone(), counters.clone(), found.clone(), loud.clone(), herr.clone(), capped.clone());
        let scratch = root.join(format!("w{w}"));
        hs.push(std::thread::spawn(move || {
            let mut wk = WorkerHandle::spawn();
            loop {
                let i = next.fetch_add(1, Ordering::Relaxed) as usize;
                if i >= jobs.len() {
                    break;
                }
                if start.elapsed().as_secs_f64() > max_wall_s {
                    capped.store(true, Ordering::Relaxed);
                    break;
                }
                let (subj, job) = &jobs[i];
                let mut job = job.clone();
                job.scratch = scratch.to_string_lossy().into_owned();
                if !wk.based.contains(&job.subject_dir) {
                    // (re)establish the baseline inside this worker process
                    if let Some((_, bj)) = base_jobs.iter().find(|(_, b)| b.subject_dir == job.subject_dir) {
                        let mut bj = bj.clone();
                        bj.scratch = job.scratch.clone();
                        let r = wk.run(&bj);
                        if r != "BASE" {
                            herr.lock().unwrap().push(format!("baseline of {} failed: {r}", subj.name));
                            if r == "ABORT" || r == "TIMEOUT" {
                                wk = WorkerHandle::spawn();
                            }
                            continue;
                        }
                        wk.based.insert(job.subject_dir.clone());
                    }
                }
                let r = wk.run(&job);
                let class = file_class(&job.file);
                let idx = if r == "SAME" {
                    0
                } else if r.starts_with("ERR") {
                    1
                } else if r.starts_with("PANIC") {
                    2
                } else if r == "ABORT" {
                    3
                } else if r == "TIMEOUT" {
                    4
                } else if r.starts_with("DIFF") {
                    5
                } else {
                    herr.lock().unwrap().push(format!("{r} ({} {} {}@{})", subj.name, job.file, job.kind, job.offset));
                    continue;
                };
                counters[idx].fetch_add(1, Ordering::Relaxed);
                if idx == 3 || idx == 4 {
                    wk = WorkerHandle::spawn();
                }
                if (2..=4).contains(&idx) {
                    let key = format!("{} in {class} file: {}", ["", "", "panic", "abort", "timeout"][idx], r.chars().take(90).collect::<String>());
                    *loud.lock().unwrap().entry(key).or_insert(0) += 1;
                }
                if idx == 5 {
                    found.lock().unwrap().push(CorruptReplay {
                        engine: "corrupt".into(),
                        property: "C10".into(),
                        subject: subj.clone(),
                        file: job.file.clone(),
                        kind: job.kind.clone(),
                        offset: job.offset,
                        mask: job.mask,
                        sig: format!("silent-diff:{class}:{}", job.kind),
                        msg: format!("{} of {} at offset {} (mask {:#04x}) in subject {}: {}", job.kind, job.file, job.offset, job.mask, subj.name, &r[5..]),
                    });
                }
            }
            let _ = wk.child.kill();
            let _ = wk.child.wait();
        }));
    }
    for h in hs {
        h.join().expect("corrupt thread");
    }
    let _ = std::fs::remove_dir_all(&root);
    let c: Vec<u64> = counters.iter().map(|x| x.load(Ordering::Relaxed)).collect();
    let mutants: u64 = c.iter().sum();
    let found = found.lock().unwrap().clone();
    let samples = vec![
        serde_json::json!({"subject": subs.first().map(|s| s.name.clone()), "mutation": "flip bit 0x01 of byte 0 of `current`"}),
        serde_json::json!({"total_jobs": total}),
    ];
    let loud_v: Vec<String> = loud.lock().unwrap().iter().map(|(k, n)| format!("{n} x {k}")).collect();
    let harness_errors = herr.lock().unwrap().clone();
    Outcome {
        mutants,
        same: c[0],
        err: c[1],
        panic: c[2],
        abort: c[3],
        timeout: c[4],
        diff: c[5],
        files,
        bytes,
        found,
        samples,
        capped: capped.load(Ordering::Relaxed),
        loud: loud_v,
        wall_s: start.elapsed().as_secs_f64(),
        harness_errors,
    }
}

/// Re-runs a single recorded mutant in-process workers; returns the result line.
pub fn replay(rp: &CorruptReplay) -> String {
    let root = crate::hx::scratch_root().join("corrupt-replay");
    crate::hx::fresh_dir(&root);
    let dir = root.join("subject");
    let snaps = match build_subject(&rp.subject, &dir) {
        Ok(s) => s,
        Err(e) => return format!("HARNESS {e}"),
    };
    let mut wk = WorkerHandle::spawn();
    let mk = |kind: &str| Job {
        subject_dir: dir.to_string_lossy().into_owned(),
        scratch: root.join("scratch").to_string_lossy().into_owned(),
        cfg: rp.subject.cfg.clone(),
        snaps: snaps.clone(),
        file: rp.file.clone(),
        kind: kind.to_string(),
        offset: rp.offset,
        mask: rp.mask,
    };
    let b = wk.run(&mk("none"));
    if b != "BASE" {
        return format!("HARNESS baseline: {b}");
    }
    let r = wk.run(&mk(&rp.kind));
    let _ = wk.child.kill();
    let _ = wk.child.wait();
    let _ = std::fs::remove_dir_all(&root);
    r
}
