//! Independent decoder for `current` and `v<N>` (does not use the crate's recovery code).

use byteorder::{LittleEndian, ReadBytesExt};
use std::path::Path;

#[derive(Debug, Clone, PartialEq, Eq)]
pub struct DiskVersion {
    /// level -> run -> (table id, checksum, global seqno)
    pub tables: Vec<Vec<Vec<(u64, u128, u64)>>>,
    pub blob_files: Vec<(u64, u128)>,
    /// (blob file id, len, bytes, on_disk_bytes)
    pub gc_stats: Vec<(u64, u32, u64, u64)>,
    pub tree_type: u8,
}

pub fn read_current(dir: &Path) -> Result<(u64, u128), String> {
    let b = std::fs::read(dir.join("current")).map_err(|e| format!("current: {e}"))?;
    if b.len() < 25 {
        return Err(format!("current has {} bytes", b.len()));
    }
    let mut r = &b[..];
    let id = r.read_u64::<LittleEndian>().map_err(|e| e.to_string())?;
    let cs = r.read_u128::<LittleEndian>().map_err(|e| e.to_string())?;
    Ok((id, cs))
}

pub fn decode_version_file(path: &Path) -> Result<DiskVersion, String> {
    let reader = sfa::Reader::new(path).map_err(|e| format!("{}: {e:?}", path.display()))?;
    let toc = reader.toc();
    let sec = |name: &[u8]| {
        toc.section(name)
            .ok_or_else(|| format!("section {} missing", String::from_utf8_lossy(name)))
    };
    let e = |x: std::io::Error| x.to_string();

    let mut tables = vec![];
    {
        let mut r = sec(b"tables")?.buf_reader(path).map_err(e)?;
        let level_count = r.read_u8().map_err(e)?;
        for _ in 0..level_count {
            let mut level = vec![];
            let run_count = r.read_u8().map_err(e)?;
            for _ in 0..run_count {
                let mut run = vec![];
                let n = r.read_u32::<LittleEndian>().map_err(e)?;
                for _ in 0..n {
                    let id = r.read_u64::<LittleEndian>().map_err(e)?;
                    let ct = r.read_u8().map_err(e)?;
                    if ct != 0 {
                        return Err(format!("checksum type {ct}"));
                    }
                    let cs = r.read_u128::<LittleEndian>().map_err(e)?;
                    let g = r.read_u64::<LittleEndian>().map_err(e)?;
                    run.push((id, cs, g));
                }
                level.push(run);
            }
            tables.push(level);
        }
    }
    let mut blob_files = vec![];
    {
        let mut r = sec(b"blob_files")?.buf_reader(path).map_err(e)?;
        let n = r.read_u32::<LittleEndian>().map_err(e)?;
        for _ in 0..n {
            let id = r.read_u64::<LittleEndian>().map_err(e)?;
            let ct = r.read_u8().map_err(e)?;
            if ct != 0 {
                return Err(format!("checksum type {ct}"));
            }
            let cs = r.read_u128::<LittleEndian>().map_err(e)?;
            blob_files.push((id, cs));
        }
    }
    let mut gc_stats = vec![];
    {
        let mut r = sec(b"blob_gc_stats")?.buf_reader(path).map_err(e)?;
        let n = r.read_u32::<LittleEndian>().map_err(e)?;
        for _ in 0..n {
            let id = r.read_u64::<LittleEndian>().map_err(e)?;
            let len = r.read_u32::<LittleEndian>().map_err(e)?;
            let bytes = r.read_u64::<LittleEndian>().map_err(e)?;
            let odb = r.read_u64::<LittleEndian>().map_err(e)?;
            gc_stats.push((id, len, bytes, odb));
        }
    }
    let tree_type = sec(b"tree_type")?
        .buf_reader(path)
        .map_err(e)?
        .read_u8()
        .map_err(e)?;
    Ok(DiskVersion {
        tables,
        blob_files,
        gc_stats,
        tree_type,
    })
}
