//! Evidence files, known findings, verdict printing.

use serde_json::{json, Value};
use std::path::{Path, PathBuf};

pub fn verif_root() -> PathBuf {
    std::env::var("VERIF_ROOT")
        .map(PathBuf::from)
        .unwrap_or_else(|_| PathBuf::from("/verif"))
}

#[derive(Clone, Debug)]
pub struct Known {
    pub property: String,
    pub sig: String,
    pub text: String,
}

pub fn load_known() -> Vec<Known> {
    let p = verif_root().join("KNOWN_FINDINGS.txt");
    let Ok(s) = std::fs::read_to_string(&p) else {
        return vec![];
    };
    let mut out = vec![];
    for line in s.lines() {
        let line = line.trim();
        let Some(rest) = line.strip_prefix("known:") else {
            continue;
        };
        let mut property = String::new();
        let mut sig = String::new();
        let mut text = vec![];
        for tok in rest.split_whitespace() {
            if let Some(x) = tok.strip_prefix("property=") {
                property = x.to_string();
            } else if let Some(x) = tok.strip_prefix("sig=") {
                sig = x.to_string();
            } else {
                text.push(tok);
            }
        }
        if !property.is_empty() && !sig.is_empty() {
            out.push(Known {
                property,
                sig,
                text: text.join(" "),
            });
        }
    }
    out
}

pub fn sig_matches(pattern: &str, sig: &str) -> bool {
    if let Some(p) = pattern.strip_suffix('*') {
        sig.starts_with(p)
    } else {
        pattern == sig
    }
}

pub fn is_known<'a>(known: &'a [Known], prop: &str, sig: &str) -> Option<&'a Known> {
    known
        .iter()
        .find(|k| k.property == prop && sig_matches(&k.sig, sig))
}

pub fn seed() -> i64 {
    std::env::var("VERIF_SEED")
        .ok()
        .and_then(|s| s.parse().ok())
        .unwrap_or(0)
}

pub struct Evidence {
    pub property: String,
    pub tier: String,
    pub level: String,
    pub coverage: Value,
    pub assumptions: Vec<String>,
    pub wall_s: f64,
    pub violations: i64,
}

pub fn write_evidence(e: &Evidence) {
    let dir = verif_root().join("evidence");
    let _ = std::fs::create_dir_all(&dir);
    let v = json!({
        "property_id": e.property,
        "tier": e.tier,
        "seed": seed(),
        "level": e.level,
        "coverage": e.coverage,
        "assumptions": e.assumptions,
        "wall_s": e.wall_s,
        "violations": e.violations,
    });
    let p = dir.join(format!("{}.json", e.property));
    std::fs::write(&p, serde_json::to_string_pretty(&v).unwrap()).expect("write evidence");
}

pub fn replay_path(prop: &str, sig: &str) -> PathBuf {
    let dir = verif_root().join("replays");
    let _ = std::fs::create_dir_all(&dir);
    let mut name: String = sig
        .chars()
        .map(|c| if c.is_ascii_alphanumeric() || c == '-' { c } else { '_' })
        .collect();
    name.truncate(60);
    dir.join(format!("{prop}-{name}.json"))
}

pub fn write_replay(path: &Path, v: &Value) {
    std::fs::write(path, serde_json::to_string_pretty(v).unwrap()).expect("write replay");
}
