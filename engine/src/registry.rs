//! Which scenarios make up which check, per tier.

use crate::driver::{keys_ab, keys_abc, FilterKind, TreeCfg};
use crate::hx::{Budget, Scenario};
use crate::ops::{Bnd, IKind, Op, Wm};
use crate::scen::{seeds_upto, Alphabet, OracleKind, Std};
use std::sync::Arc;

pub fn caps(tier: &str) -> (f64, u64) {
    let wall = std::env::var("VERIF_MAX_WALL_S")
        .ok()
        .and_then(|s| s.parse().ok());
    match tier {
        "quick" => (wall.unwrap_or(45.0), u64::MAX),
        _ => (wall.unwrap_or(900.0), u64::MAX),
    }
}

fn b(data: u8, maint: u8, snap: u8, reopen: u8) -> Budget {
    Budget {
        data,
        maint,
        snap,
        reopen,
        special: 1,
    }
}

fn bs(data: u8, maint: u8, snap: u8, reopen: u8, special: u8) -> Budget {
    Budget {
        data,
        maint,
        snap,
        reopen,
        special,
    }
}

fn std(
    name: &str,
    cfg: TreeCfg,
    alphabet: Alphabet,
    budget: Budget,
    seeds: Vec<Vec<Op>>,
    oracle: OracleKind,
) -> Arc<dyn Scenario> {
    Arc::new(Std {
        name: name.to_string(),
        cfg,
        alphabet,
        budget,
        seeds,
        oracle,
    })
}

/// Three keys; every write is flushed and (optionally) followed by a leveled compaction with the
/// "always over capacity" parameter set 2 of `TreeCfg::small`.
fn cascade_alphabet() -> Alphabet {
    cascade_alphabet_with(false)
}

fn cascade_alphabet_with(big: bool) -> Alphabet {
    let mut al = Alphabet::default();
    for k in 0..3u8 {
        for del in [false, true] {
            let w = if del { Op::Del { k } } else { Op::Put { k, big } };
            al.extra.push(Op::Seq { ops: vec![w.clone(), Op::Flush { w: Wm::Tight }, Op::Leveled { w: Wm::Tight, p: 2 }] });
            al.extra.push(Op::Seq { ops: vec![w, Op::Flush { w: Wm::Tight }] });
        }
    }
    al.extra.push(Op::Leveled { w: Wm::Tight, p: 2 });
    al.extra.push(Op::Seq { ops: vec![Op::Batch { puts: vec![0], dels: vec![2] }, Op::Flush { w: Wm::Tight }] });
    al
}

fn cfg_alt_layout(keys: Vec<Vec<u8>>) -> TreeCfg {
    let mut c = TreeCfg::small(keys);
    c.lz4 = true;
    c.block_size = 4096;
    c.hash_ratio = 8.0;
    c.index_partitioning = true;
    c.filter_partitioning = true;
    c.pin_index = false;
    c.pin_filter = false;
    c
}

fn cfg_nofilter(keys: Vec<Vec<u8>>) -> TreeCfg {
    let mut c = TreeCfg::small(keys);
    c.filter = FilterKind::None;
    c.restart_interval = 1;
    c
}

fn ingest_batches() -> Vec<Vec<(u8, IKind)>> {
    // every batch over {a,b} with each key in {absent, value, tombstone}, the empty one included
    let opts = [None, Some(IKind::Val), Some(IKind::Tomb)];
    let mut out = vec![];
    for a in opts {
        for bb in opts {
            let mut v = vec![];
            if let Some(x) = a {
                v.push((0u8, x));
            }
            if let Some(x) = bb {
                v.push((1u8, x));
            }
            out.push(v);
        }
    }
    out
}

pub fn scenarios(prop: &str, tier: &str) -> Vec<Arc<dyn Scenario>> {
    let quick = tier == "quick";
    let mut v: Vec<Arc<dyn Scenario>> = vec![];
    match prop {
        "C01" | "C07" | "C18" | "C20" => {
            let oracle = match prop {
                "C01" => OracleKind::C01,
                "C07" => OracleKind::C07,
                "C18" => OracleKind::C18,
                _ => OracleKind::C20,
            };
            let mut a = if quick { Alphabet::lean() } else { Alphabet::core() };
            if prop == "C07" && !quick {
                a.leveled = vec![0, 1];
            }
            if prop == "C18" {
                // a second writer that allocated its seqno later but inserts first
                a.extra = vec![Op::PutSwapped { k1: 0, k2: 1 }, Op::PutSwapped { k1: 1, k2: 1 }];
            }
            if prop == "C18" || prop == "C20" {
                a.clear = true;
                a.drop_ranges = vec![
                    (Bnd::Inc(b"a".to_vec()), Bnd::Inc(b"a".to_vec())),
                    (Bnd::Unb, Bnd::Unb),
                ];
                a.ingests = vec![
                    vec![],
                    vec![(0, IKind::Val)],
                    vec![(0, IKind::Tomb), (1, IKind::Val)],
                ];
            }
            if prop == "C20" {
                a.snap = true;
                a.abandon_ingests = vec![vec![(0, IKind::Val)]];
            }
            let snap = if prop == "C20" { 1 } else { 0 };
            if quick {
                v.push(std(
                    &format!("{prop}-empty-32"),
                    TreeCfg::small(keys_ab()),
                    a.clone(),
                    b(3, 2, snap, 1),
                    vec![vec![]],
                    oracle,
                ));
                v.push(std(
                    &format!("{prop}-seeds2-22"),
                    TreeCfg::small(keys_ab()),
                    a.clone(),
                    bs(2, 2, 0, 1, 0),
                    seeds_upto(2),
                    oracle,
                ));
            } else {
                v.push(std(
                    &format!("{prop}-empty-33"),
                    TreeCfg::small(keys_ab()),
                    a.clone(),
                    b(3, 3, snap, 1),
                    vec![vec![]],
                    oracle,
                ));
                v.push(std(
                    &format!("{prop}-seeds3-22"),
                    TreeCfg::small(keys_ab()),
                    a.clone(),
                    b(2, 2, snap, 1),
                    seeds_upto(3),
                    oracle,
                ));
                v.push(std(
                    &format!("{prop}-k3-32"),
                    TreeCfg::small(keys_abc()),
                    a.clone(),
                    b(3, 2, 0, 1),
                    vec![vec![]],
                    oracle,
                ));
            }
            {
                // workload loop on three keys: every write is flushed and leveled-compacted at once
                let mut al = Alphabet::default();
                for k in 0..3u8 {
                    for del in [false, true] {
                        let w = if del { Op::Del { k } } else { Op::Put { k, big: false } };
                        al.extra.push(Op::Seq {
                            ops: vec![w.clone(), Op::Flush { w: Wm::Tight }, Op::Leveled { w: Wm::Tight, p: 0 }],
                        });
                        // ... or only flushed (several L0 runs build up)
                        al.extra.push(Op::Seq { ops: vec![w, Op::Flush { w: Wm::Tight }] });
                    }
                }
                // a wide table holding a put and a delete at its two ends
                al.extra.push(Op::Seq { ops: vec![Op::Batch { puts: vec![0], dels: vec![2] }, Op::Flush { w: Wm::Tight }] });
                al.extra.push(Op::Seq { ops: vec![Op::Batch { puts: vec![2], dels: vec![0] }, Op::Flush { w: Wm::Tight }] });
                al.reopen = !quick;
                let bd = if quick { bs(4, 0, 0, 0, 0) } else { bs(5, 0, 0, 1, 0) };
                v.push(std(&format!("{prop}-loop-k3"), TreeCfg::small(keys_abc()), al, bd, seeds_upto(1), oracle));
                if !quick {
                    let mut af = Alphabet::default();
                    af.put_f = true;
                    af.del_f = true;
                    af.flush_leveled = vec![0];
                    af.leveled = vec![0];
                    af.major = vec![1];
                    af.movedown = vec![(0, 1)];
                    af.pulldown = vec![(0, 1)];
                    af.wms = vec![Wm::Tight];
                    af.reopen = true;
                    v.push(std(&format!("{prop}-flushy-k3"), TreeCfg::small(keys_abc()), af, bs(3, 3, 0, 1, 0), seeds_upto(1), oracle));
                }
            }
            {
                // leveled cascade: with a 1-byte level target every level is over capacity, so the
                // strategy keeps opening a new L1 above the populated levels and picks L(k) -> L(k+1)
                // merges by score; three keys, every write flushed and followed by one or two
                // leveled compactions
                let mut al = cascade_alphabet();
                al.reopen = !quick;
                let bd = if quick { bs(3, 1, 0, 0, 0) } else { bs(5, 2, 0, 1, 0) };
                v.push(std(&format!("{prop}-cascade-k3"), TreeCfg::small(keys_abc()), al, bd, vec![vec![]], oracle));
            }
            if prop == "C01" || prop == "C07" {
                // data parked in the deep levels (L5 / L6) with L1..L4 empty, then the leveled strategy
                // decides where the next L0 run goes
                let mut ad = Alphabet::default();
                ad.put_f = true;
                ad.del_f = true;
                ad.leveled = vec![0];
                ad.movedown = vec![(0, 5), (0, 6), (5, 6)];
                ad.wms = vec![Wm::Tight];
                ad.reopen = !quick;
                let bd = if quick { bs(3, 2, 0, 0, 0) } else { bs(4, 3, 0, 1, 0) };
                v.push(std(&format!("{prop}-deep-levels"), TreeCfg::small(keys_ab()), ad, bd, vec![vec![]], oracle));
            }
            if prop == "C01" {
                // bulk: hundreds of tiny entries in one data block (far more than 254 restart points),
                // hash index on, read every key
                let n = 600u32;
                let keys: Vec<Vec<u8>> = (0..n).map(|i| format!("k{i:04}").into_bytes()).collect();
                let all = Op::Seq { ops: (0..n).map(|k| Op::PutIdx { k }).collect() };
                let over = Op::Seq { ops: (0..n).step_by(3).map(|k| Op::PutIdx { k }).collect() };
                let dels = Op::Seq { ops: (0..n).step_by(7).map(|k| Op::DelIdx { k }).collect() };
                let fl0 = Op::Flush { w: Wm::Zero };
                let seeds = vec![
                    vec![all.clone(), fl0.clone()],
                    vec![all.clone(), fl0.clone(), over.clone(), dels.clone(), fl0.clone()],
                    vec![all.clone(), fl0.clone(), over.clone(), dels.clone(), fl0.clone(), Op::Major { w: Wm::Tight, target: u64::MAX }],
                ];
                for (name, restart, hash, bsz) in [("r1-h8", 1u8, 8.0f32, 65536u32), ("r2-h8", 2, 8.0, 65536), ("r16-h0", 16, 0.0, 4096)] {
                    let mut c = TreeCfg::small(keys.clone());
                    c.block_size = bsz;
                    c.restart_interval = restart;
                    c.hash_ratio = hash;
                    v.push(std(&format!("C01-bulk-{name}"), c, Alphabet { reopen: true, ..Default::default() }, bs(0, 0, 0, 1, 0), seeds.clone(), oracle));
                }
            }
            if prop == "C01" {
                let (bd, sd) = if quick { (b(2, 2, 0, 1), 1) } else { (b(2, 2, 0, 1), 2) };
                v.push(std(
                    "C01-altlayout",
                    cfg_alt_layout(keys_ab()),
                    a.clone(),
                    bd,
                    seeds_upto(sd),
                    oracle,
                ));
                v.push(std(
                    "C01-nofilter",
                    cfg_nofilter(keys_ab()),
                    a.clone(),
                    bd,
                    seeds_upto(sd),
                    oracle,
                ));
            }
            if prop == "C18" {
                // tables written without a filter (policy none / expect_point_read_hits on the last level)
                let mut c1 = cfg_nofilter(keys_ab());
                c1.restart_interval = 16;
                let mut c2 = TreeCfg::small(keys_ab());
                c2.expect_point_read_hits = true;
                let bd = if quick { bs(2, 2, 0, 1, 0) } else { bs(3, 2, 0, 1, 1) };
                v.push(std("C18-nofilter", c1, a.clone(), bd, seeds_upto(1), oracle));
                v.push(std("C18-expect-hits", c2, a.clone(), bd, seeds_upto(1), oracle));
            }
            if prop == "C20" || prop == "C18" || prop == "C07" {
                // key-value separated tree as well
                let (bd, sd) = if quick { (b(2, 2, 0, 1), 1) } else { (b(2, 2, snap, 1), 2) };
                let mut ab = a.clone();
                ab.put_big = true;
                v.push(std(
                    &format!("{prop}-blob"),
                    TreeCfg::small(keys_ab()).with_blob(16),
                    ab.clone(),
                    bd,
                    seeds_upto(sd),
                    oracle,
                ));
                // relocation-happy configuration: every stale blob file is rewritten at once
                let mut cr = TreeCfg::small(keys_ab()).with_blob(16);
                cr.blob = Some(crate::driver::BlobCfg { threshold: 16, file_target: 64 << 20, staleness: 0.0, age_cutoff: 1.0 });
                let mut ar = Alphabet::default();
                // two large values in one blob file: the file can be stale without being dead
                ar.extra = vec![Op::Seq { ops: vec![Op::Put { k: 0, big: true }, Op::Put { k: 1, big: true }, Op::Flush { w: Wm::Tight }] }];
                ar.put_f_big = true;
                ar.put_f = true;
                ar.del_f = true;
                ar.major = vec![u64::MAX];
                ar.leveled = vec![0];
                ar.wms = vec![Wm::Tight];
                ar.reopen = true;
                let bd = if quick { bs(3, 2, 0, 0, 0) } else { bs(4, 3, 0, 1, 0) };
                v.push(std(&format!("{prop}-blob-relocating"), cr, ar, bd, vec![vec![]], oracle));
            }
        }
        "C02" => {
            let mut a = if quick { Alphabet::lean() } else { Alphabet::core() };
            a.snap = true;
            a.reopen = false;
            a.clear = true;
            a.drop_ranges = vec![(Bnd::Inc(b"a".to_vec()), Bnd::Inc(b"a".to_vec()))];
            a.ingests = vec![vec![(0, IKind::Val)], vec![(0, IKind::Tomb), (1, IKind::Val)]];
            if quick {
                a.ingests.truncate(1);
                a.movedown.clear();
            }
            {
                // a reader opens its snapshot while a merge is running (played from inside the compaction filter)
                use crate::cfilter::VerdictSpec;
                let mut c = TreeCfg::small(keys_ab());
                c.filter_verdicts = Some(vec![VerdictSpec::Remove, VerdictSpec::ReplaceSmall]);
                c.mid_snapshot = true;
                let mut am = Alphabet::core();
                am.wms = vec![Wm::Zero];
                am.reopen = false;
                am.movedown = vec![];
                am.pulldown = vec![(0, 1)];
                am.major = vec![u64::MAX];
                am.flush_sealed = false;
                am.rotate = false;
                let bd = if quick { bs(3, 2, 0, 0, 0) } else { bs(3, 3, 0, 0, 0) };
                v.push(std("C02-midsnap", c, am, bd, seeds_upto(1), OracleKind::C02));
            }
            {
                // snapshots held across merges chosen by score in a cascade of over-full levels
                let mut ac = cascade_alphabet();
                ac.snap = true;
                let bd = if quick { bs(3, 1, 1, 0, 0) } else { bs(4, 2, 2, 0, 0) };
                v.push(std("C02-cascade-k3", TreeCfg::small(keys_abc()), ac, bd, vec![vec![]], OracleKind::C02));
            }
            if quick {
                v.push(std(
                    "C02-empty-222",
                    TreeCfg::small(keys_ab()),
                    a.clone(),
                    bs(2, 2, 2, 0, 0),
                    vec![vec![]],
                    OracleKind::C02,
                ));
                v.push(std(
                    "C02-seeds1-112-special",
                    TreeCfg::small(keys_ab()),
                    a.clone(),
                    bs(1, 1, 2, 0, 1),
                    crate::scen::seeds_with_deep(1),
                    OracleKind::C02,
                ));
                v.push(std(
                    "C02-std-212-special",
                    TreeCfg::small(keys_ab()),
                    a.clone(),
                    bs(2, 1, 2, 0, 1),
                    vec![vec![]],
                    OracleKind::C02,
                ));
                // key-value separated tree: its own get / scan entry points resolve the snapshot's version
                v.push(std(
                    "C02-blob-212-special",
                    TreeCfg::small(keys_ab()).with_blob(1),
                    a.clone(),
                    bs(2, 1, 2, 0, 1),
                    seeds_upto(1),
                    OracleKind::C02,
                ));
            } else {
                v.push(std(
                    "C02-empty-322",
                    TreeCfg::small(keys_ab()),
                    a.clone(),
                    b(3, 2, 2, 0),
                    vec![vec![]],
                    OracleKind::C02,
                ));
                v.push(std(
                    "C02-seeds3-122",
                    TreeCfg::small(keys_ab()),
                    a.clone(),
                    b(1, 2, 2, 0),
                    seeds_upto(3),
                    OracleKind::C02,
                ));
                v.push(std(
                    "C02-blob-222",
                    TreeCfg::small(keys_ab()).with_blob(1),
                    a.clone(),
                    b(2, 2, 2, 0),
                    seeds_upto(1),
                    OracleKind::C02,
                ));
            }
        }
        "C02" if false => {}
        "C04" => {
            let mut a = if quick { Alphabet::lean() } else { Alphabet::core() };
            a.clear = true;
            a.drop_ranges = vec![(Bnd::Inc(b"a".to_vec()), Bnd::Inc(b"a".to_vec()))];
            a.ingests = vec![vec![(0, IKind::Val)], vec![(0, IKind::Tomb), (1, IKind::Val)]];
            a.movedown = vec![(0, 1)];
            a.pulldown = vec![(0, 1)];
            a.major = vec![1];
            a.abandon_ingests = vec![vec![(0, IKind::Val)]];
            let mut ab = a.clone();
            ab.put_big = true;
            {
                // one table (and blob file) per write, reopen anywhere
                let mut af = Alphabet::default();
                af.put_f = true;
                af.put_f_big = true;
                af.del_f = true;
                af.major = vec![u64::MAX];
                af.wms = vec![Wm::Tight];
                af.reopen = true;
                let bd = if quick { bs(3, 1, 0, 1, 0) } else { bs(5, 2, 0, 2, 0) };
                v.push(std("C04-blob-flushy", TreeCfg::small(keys_ab()).with_blob(16), af.clone(), bd, vec![vec![]], OracleKind::C04));
                let mut cr = TreeCfg::small(keys_ab()).with_blob(16);
                cr.blob = Some(crate::driver::BlobCfg { threshold: 16, file_target: 64 << 20, staleness: 0.0, age_cutoff: 1.0 });
                let mut ar = af.clone();
                ar.extra = vec![Op::Seq { ops: vec![Op::Put { k: 0, big: true }, Op::Put { k: 1, big: true }, Op::Flush { w: Wm::Tight }] }];
                v.push(std("C04-blob-relocating", cr, ar, bd, vec![vec![]], OracleKind::C04));
            }
            {
                // merges that do not involve L0 (newest table ids end up below older tables), reopen anywhere
                let mut ad = Alphabet::default();
                ad.put_f = true;
                ad.del_f = true;
                ad.pulldown = vec![(0, 1), (1, 2)];
                ad.movedown = vec![(0, 1)];
                ad.wms = vec![Wm::Zero];
                ad.reopen = true;
                let bd = if quick { bs(2, 2, 0, 1, 0) } else { bs(4, 3, 0, 2, 0) };
                v.push(std("C04-deep-levels", TreeCfg::small(keys_ab()), ad, bd, vec![vec![]], OracleKind::C04));
                // flushes whose whole content is evicted (value + weak delete under a tight watermark):
                // a version change that writes no table, then reopen
                let mut aw = Alphabet::default();
                aw.wdel_discipline = true;
                aw.flush = true;
                aw.wms = vec![Wm::Tight, Wm::Zero];
                aw.reopen = true;
                let bw = if quick { bs(3, 2, 0, 1, 0) } else { bs(4, 3, 0, 2, 0) };
                v.push(std("C04-evicting-flush", TreeCfg::small(keys_ab()), aw, bw, vec![vec![]], OracleKind::C04));
            }
            if quick {
                v.push(std(
                    "C04-std-222",
                    TreeCfg::small(keys_ab()),
                    a.clone(),
                    bs(2, 2, 0, 1, 1),
                    seeds_upto(1),
                    OracleKind::C04,
                ));
                v.push(std(
                    "C04-blob-212",
                    TreeCfg::small(keys_ab()).with_blob(16),
                    ab.clone(),
                    bs(2, 1, 0, 1, 1),
                    seeds_upto(1),
                    OracleKind::C04,
                ));
            } else {
                v.push(std(
                    "C04-std-323",
                    TreeCfg::small(keys_ab()),
                    a.clone(),
                    b(3, 2, 0, 3),
                    seeds_upto(1),
                    OracleKind::C04,
                ));
                v.push(std(
                    "C04-std-seeds3",
                    TreeCfg::small(keys_ab()),
                    a.clone(),
                    b(1, 2, 0, 2),
                    seeds_upto(3),
                    OracleKind::C04,
                ));
                v.push(std(
                    "C04-blob-222",
                    TreeCfg::small(keys_ab()).with_blob(16),
                    ab.clone(),
                    b(2, 2, 0, 2),
                    seeds_upto(2),
                    OracleKind::C04,
                ));
            }
        }
        "C03" => {
            let mp = |ks: &[u8]| Op::MultiPut { ks: ks.to_vec() };
            let md = |ks: &[u8]| Op::MultiDel { ks: ks.to_vec() };
            let mut a = Alphabet::default();
            a.extra = vec![
                mp(&[0, 1, 2, 3, 4, 5]),
                mp(&[0, 2, 4]),
                mp(&[1, 3, 5]),
                mp(&[1, 2]),
                md(&[0, 5]),
                md(&[1, 2]),
                md(&[3]),
            ];
            a.rotate = true;
            a.flush = true;
            // table targets: one key per table / two-three keys per table (multi-key tables in a multi-table run) / one table
            a.major = vec![1, 200, u64::MAX];
            a.leveled = vec![0];
            a.wms = vec![Wm::Zero, Wm::Tight];
            a.snap = true;
            let keys = crate::scanmc::c03_keys();
            let mut c2 = TreeCfg::small(keys.clone());
            c2.block_size = 4096;
            c2.restart_interval = 2;
            c2.index_partitioning = true;
            if quick {
                a.extra = vec![mp(&[0, 1, 2, 3, 4, 5]), mp(&[1, 3, 5]), md(&[0, 5]), md(&[1, 2])];
                v.push(Arc::new(crate::scanmc::C03::new(
                    "C03-b1", TreeCfg::small(keys.clone()), a.clone(), b(2, 2, 1, 0), vec![vec![]], false)));
                v.push(Arc::new(crate::scanmc::C03::new(
                    "C03-b4096", c2, a.clone(), b(2, 2, 1, 0), vec![vec![]], false)));
            } else {
                v.push(Arc::new(crate::scanmc::C03::new(
                    "C03-b1", TreeCfg::small(keys.clone()), a.clone(), b(3, 3, 1, 0), vec![vec![]], true)));
                v.push(Arc::new(crate::scanmc::C03::new(
                    "C03-b4096", c2, a.clone(), b(3, 2, 1, 0), vec![vec![]], true)));
            }
        }
        "C15" => {
            let keys: Vec<Vec<u8>> = vec![b"a".to_vec(), b"b".to_vec(), b"c".to_vec(), b"d".to_vec()];
            let mp = |ks: &[u8]| Op::MultiPut { ks: ks.to_vec() };
            let md = |ks: &[u8]| Op::MultiDel { ks: ks.to_vec() };
            let fl = Op::Flush { w: Wm::Zero };
            let mj = Op::Major { w: Wm::Zero, target: 1 };
            let seeds: Vec<Vec<Op>> = vec![
                vec![],
                vec![mp(&[0, 1, 2, 3])],
                vec![mp(&[0, 1, 2, 3]), fl.clone()],
                vec![mp(&[0, 1, 2, 3]), fl.clone(), mj.clone()],
                vec![mp(&[0, 1]), fl.clone(), mp(&[2, 3]), fl.clone()],
                vec![mp(&[0, 1, 2, 3]), fl.clone(), mp(&[1, 2]), fl.clone()],
                vec![mp(&[0, 1, 2, 3]), fl.clone(), mj.clone(), mp(&[1, 2]), fl.clone()],
                vec![mp(&[0, 1, 2, 3]), fl.clone(), mj.clone(), md(&[1]), fl.clone()],
                vec![mp(&[0, 1, 2, 3]), fl.clone(), mp(&[0, 3])],
                // sealed memtables pending
                vec![mp(&[0, 1, 2, 3]), Op::Rotate],
                vec![mp(&[0, 1]), fl.clone(), mp(&[1, 2]), Op::Rotate, mp(&[3])],
            ];
            let pts: Vec<Vec<u8>> = if quick {
                vec![b"a".to_vec(), b"b".to_vec(), b"b0".to_vec(), b"d".to_vec()]
            } else {
                vec![vec![], b"a".to_vec(), b"a0".to_vec(), b"b".to_vec(), b"c".to_vec(), b"d".to_vec(), b"e".to_vec()]
            };
            let mut bnds = vec![Bnd::Unb];
            for p in &pts {
                bnds.push(Bnd::Inc(p.clone()));
                bnds.push(Bnd::Exc(p.clone()));
            }
            let mut a = Alphabet::default();
            a.extra = vec![mp(&[0, 1, 2, 3]), mp(&[1, 2]), md(&[1]), Op::Put { k: 0, big: false }, Op::Put { k: 3, big: false }];
            for lo in &bnds {
                for hi in &bnds {
                    a.drop_ranges.push((lo.clone(), hi.clone()));
                }
            }
            a.clear = true;
            a.snap = true;
            a.no_unsnap = true;
            a.reopen = true;
            a.wms = vec![Wm::Zero, Wm::Tight];
            {
                // drop_range / clear on a tree whose tables are spread over a cascade of over-full levels
                // (several levels, several tables per run)
                let mut ac = cascade_alphabet();
                let kb = |b: u8| vec![b];
                ac.drop_ranges = vec![
                    (Bnd::Unb, Bnd::Inc(kb(b'a'))),
                    (Bnd::Inc(kb(b'b')), Bnd::Inc(kb(b'b'))),
                    (Bnd::Exc(kb(b'a')), Bnd::Unb),
                    (Bnd::Inc(kb(b'a')), Bnd::Exc(kb(b'c'))),
                    (Bnd::Unb, Bnd::Unb),
                ];
                ac.clear = true;
                ac.snap = true;
                ac.no_unsnap = true;
                ac.reopen = !quick;
                let bd = if quick { bs(2, 1, 1, 0, 1) } else { bs(4, 1, 1, 1, 2) };
                v.push(std("C15-cascade-k3", TreeCfg::small(keys_abc()), ac, bd, vec![vec![]], OracleKind::C15));
            }
            if quick {
                v.push(std("C15-std", TreeCfg::small(keys.clone()), a.clone(), bs(1, 0, 1, 1, 1), seeds.clone(), OracleKind::C15));
                let mut ab = a.clone();
                ab.drop_ranges = ab.drop_ranges.into_iter().step_by(3).collect();
                v.push(std("C15-blob", TreeCfg::small(keys.clone()).with_blob(1), ab, bs(1, 0, 1, 1, 1), seeds.clone(), OracleKind::C15));
            } else {
                a.flush = true;
                a.major = vec![1];
                a.leveled = vec![0];
                a.wms = vec![Wm::Tight];
                v.push(std("C15-std", TreeCfg::small(keys.clone()), a.clone(), bs(1, 1, 1, 1, 1), seeds.clone(), OracleKind::C15));
                let mut ab = a.clone();
                ab.drop_ranges = ab.drop_ranges.into_iter().step_by(3).collect();
                v.push(std("C15-blob", TreeCfg::small(keys.clone()).with_blob(1), ab, bs(1, 1, 1, 1, 1), seeds.clone(), OracleKind::C15));
            }
        }
        "C17" => {
            use crate::cfilter::ALL_VERDICTS;
            let mut a = if quick { Alphabet::lean() } else { Alphabet::core() };
            a.batch = false;
            a.snap = true;
            a.no_unsnap = true;
            a.movedown = vec![];
            a.pulldown = vec![(0, 1)];
            a.major = vec![1];
            a.flush_sealed = false;
            a.rotate = false;
            a.wms = vec![Wm::Zero, Wm::Tight];
            // one table per write: an entry the filter turns into a tombstone must keep hiding
            // older versions that live in tables the compaction does not touch
            a.put_f = true;
            let c17_seeds: Vec<Vec<Op>> = vec![
                vec![],
                vec![Op::MultiPut { ks: vec![0, 1] }, Op::Flush { w: Wm::Zero }],
                vec![Op::MultiPut { ks: vec![0, 1] }, Op::Flush { w: Wm::Zero }, Op::Leveled { w: Wm::Zero, p: 0 }],
            ];
            let mut maps = vec![];
            for va in ALL_VERDICTS {
                for vb in ALL_VERDICTS {
                    maps.push(vec![va, vb]);
                }
            }
            {
                // weak deletes (single-delete discipline): the filter must never be shown one
                use crate::cfilter::VerdictSpec::*;
                let mut aw = a.clone();
                aw.wdel_discipline = true;
                aw.put_f = false;
                for m in [vec![ReplaceSmall, Remove], vec![Destroy, ReplaceBig], vec![Keep, RemoveWeak]] {
                    let mut c = TreeCfg::small(keys_ab());
                    c.filter_verdicts = Some(m.clone());
                    let bd = if quick { bs(3, 2, 0, 0, 0) } else { bs(4, 2, 1, 1, 0) };
                    v.push(std(&format!("C17-weak-{:?}-{:?}", m[0], m[1]), c, aw.clone(), bd, vec![vec![]], OracleKind::C17));
                }
            }
            {
                // the filter at work inside merges chosen by score between over-full levels (three keys,
                // one table per write, leveled parameter set 2): Remove / Replace on a and b, c kept
                use crate::cfilter::VerdictSpec::*;
                for m in [vec![Remove, ReplaceSmall, Keep], vec![ReplaceSmall, Remove, Keep]] {
                    let mut c = TreeCfg::small(keys_abc());
                    c.filter_verdicts = Some(m.clone());
                    let mut ac = cascade_alphabet();
                    ac.snap = true;
                    ac.no_unsnap = true;
                    let bd = if quick { bs(3, 1, 1, 0, 0) } else { bs(4, 2, 1, 0, 0) };
                    v.push(std(&format!("C17-cascade-{:?}-{:?}", m[0], m[1]), c, ac, bd, vec![vec![]], OracleKind::C17));
                }
            }
            let maps: Vec<_> = if quick { maps.into_iter().step_by(5).collect() } else { maps };
            for (i, m) in maps.iter().enumerate() {
                let mut c = TreeCfg::small(keys_ab());
                c.filter_verdicts = Some(m.clone());
                let bd = if quick { bs(2, 2, 1, 0, 0) } else { bs(3, 2, 1, 1, 0) };
                v.push(std(&format!("C17-std-{:?}-{:?}", m[0], m[1]), c.clone(), a.clone(), bd, c17_seeds.clone(), OracleKind::C17));
                if !quick || i % 2 == 0 {
                    let mut cb = c.clone().with_blob(16);
                    cb.filter_verdicts = Some(m.clone());
                    let mut ab = a.clone();
                    ab.put_big = true;
                    let bd = if quick { bs(2, 1, 1, 0, 0) } else { bs(2, 2, 1, 1, 0) };
                    v.push(std(&format!("C17-blob-{:?}-{:?}", m[0], m[1]), cb, ab, bd, c17_seeds.clone(), OracleKind::C17));
                }
            }
        }
        "C19" => {
            let keys: Vec<Vec<u8>> = (0..5).map(|i| format!("k{i:02}").into_bytes()).collect();
            let mut a = Alphabet::default();
            a.pnext = true;
            a.flush = true;
            a.wms = vec![Wm::Tight];
            a.ticks = vec![1, 10];
            a.fifo_ttls = if quick { vec![None, Some(5)] } else { vec![None, Some(0), Some(5), Some(1000)] };
            a.reopen = true;
            let bd = if quick { bs(3, 4, 0, 1, 1) } else { bs(4, 6, 0, 1, 2) };
            v.push(std("C19-std", TreeCfg::small(keys.clone()), a.clone(), bd, vec![vec![]], OracleKind::C19));
            let mut ab = a.clone();
            ab.pnext_big = true;
            let bd = if quick { bs(2, 3, 0, 1, 1) } else { bs(3, 5, 0, 1, 2) };
            v.push(std("C19-blob", TreeCfg::small(keys.clone()).with_blob(16), ab, bd, vec![vec![]], OracleKind::C19));
            // strictly decreasing key order, tables created fractions of a second apart
            let mut ad = a.clone();
            ad.pnext_desc = true;
            ad.ticks = vec![];
            ad.ticks_ms = vec![100];
            ad.fifo_ttls = vec![None];
            let bd = if quick { bs(3, 5, 0, 0, 1) } else { bs(4, 7, 0, 1, 1) };
            v.push(std("C19-descending", TreeCfg::small(keys.clone()), ad, bd, vec![vec![]], OracleKind::C19));
        }
        "C08" | "C09" => {
            use crate::blobmc::{Blob, Kind};
            use crate::driver::BlobCfg;
            let kind = if prop == "C08" { Kind::C08 } else { Kind::C09 };
            let mut a = if quick { Alphabet::lean() } else { Alphabet::core() };
            a.put_big = true;
            a.snap = true;
            a.no_unsnap = prop == "C08";
            a.movedown = vec![(0, 1)];
            a.pulldown = vec![(0, 1)];
            a.major = vec![1, u64::MAX];
            a.flush_sealed = false;
            if prop == "C09" {
                a.drop_ranges = vec![
                    (Bnd::Inc(b"a".to_vec()), Bnd::Inc(b"a".to_vec())),
                    (Bnd::Unb, Bnd::Unb),
                ];
                a.ingests = vec![vec![(0, IKind::BigVal)], vec![(0, IKind::Tomb), (1, IKind::BigVal)]];
                a.clear = true;
            }
            let mk = |threshold: u32, file_target: u64, staleness: f32, age_cutoff: f32| {
                let mut c = TreeCfg::small(keys_ab());
                c.blob = Some(BlobCfg { threshold, file_target, staleness, age_cutoff });
                c
            };
            let mut push = |name: String, cfg: TreeCfg, alpha: &Alphabet, bd: Budget, seeds: Vec<Vec<Op>>| {
                v.push(Arc::new(Blob { name, cfg, alphabet: alpha.clone(), budget: bd, seeds, kind }) as Arc<dyn Scenario>);
            };
            {
                // relocation-happy: two large values share a blob file, every stale file is rewritten
                let mut ar = Alphabet::default();
                ar.extra = vec![Op::Seq { ops: vec![Op::Put { k: 0, big: true }, Op::Put { k: 1, big: true }, Op::Flush { w: Wm::Tight }] }];
                ar.put_f_big = true;
                ar.put_f = true;
                ar.del_f = true;
                ar.major = vec![u64::MAX];
                ar.leveled = vec![0];
                ar.wms = vec![Wm::Tight];
                ar.snap = prop == "C08";
                ar.no_unsnap = true;
                ar.reopen = true;
                let bd = if quick { bs(2, 2, 1, 0, 0) } else { bs(4, 3, 1, 1, 0) };
                // no block / blob cache: nothing read earlier can hide a pointer that resolves wrongly
                let mut cr = mk(16, 64 << 20, 0.0, 1.0);
                cr.cache_bytes = 0;
                push(format!("{prop}-relocating"), cr.clone(), &ar, bd, vec![vec![]]);
                // the same with lz4-compressed blobs, data and index blocks
                let mut cl = cr.clone();
                cl.lz4 = true;
                cl.block_size = 4096;
                push(format!("{prop}-relocating-lz4"), cl, &ar, bd, vec![vec![]]);
            }
            {
                // several partly stale blob files rewritten by one compaction whose output is larger
                // than the blob file target: the relocation writer rotates to a new file half-way.
                // Six keys, three blobs per file (a frame is 63 bytes, target 150).
                let keys6: Vec<Vec<u8>> = b"abcdef".iter().map(|b| vec![*b]).collect();
                let mut c = TreeCfg::small(keys6);
                c.blob = Some(BlobCfg { threshold: 16, file_target: 150, staleness: 0.0, age_cutoff: 1.0 });
                c.cache_bytes = 0;
                let fl = Op::Flush { w: Wm::Tight };
                let all = Op::Seq { ops: (0..6u8).map(|k| Op::Put { k, big: true }).collect() };
                let some = Op::Seq { ops: vec![Op::Put { k: 0, big: true }, Op::Put { k: 3, big: true }] };
                let mut am = Alphabet::default();
                am.major = vec![u64::MAX];
                am.leveled = vec![0];
                am.put_f_big = true;
                am.del_f = true;
                am.wms = vec![Wm::Tight];
                am.reopen = true;
                am.snap = prop == "C08";
                am.no_unsnap = true;
                let seeds = vec![vec![all.clone(), fl.clone(), some.clone(), fl.clone()], vec![all.clone(), fl.clone(), Op::Snap, some.clone(), fl.clone()]];
                let bd = if quick { bs(1, 2, 0, 1, 0) } else { bs(2, 3, 1, 1, 0) };
                push(format!("{prop}-relocating-rotation"), c, &am, bd, seeds);
            }
            {
                // large values travelling through a cascade of over-full levels: blob links move from
                // table to table in merges chosen by score, blob files go stale and are rewritten
                let mut c = TreeCfg::small(crate::driver::keys_abc());
                c.blob = Some(BlobCfg { threshold: 16, file_target: 64 << 20, staleness: 0.0, age_cutoff: 1.0 });
                c.cache_bytes = 0;
                let mut ac = cascade_alphabet_with(true);
                ac.snap = prop == "C08";
                ac.no_unsnap = true;
                ac.reopen = !quick;
                let bd = if quick { bs(3, 1, 1, 0, 0) } else { bs(4, 2, 1, 1, 0) };
                push(format!("{prop}-cascade-k3"), c, &ac, bd, vec![vec![]]);
            }
            {
                // three blobs in one file, rewrite threshold 0.5: a compaction first only marks the
                // file stale (1/3), a later one drops a second pointer into it and rewrites it
                let mut c = TreeCfg::small(crate::driver::keys_abc());
                c.blob = Some(BlobCfg { threshold: 16, file_target: 64 << 20, staleness: 0.5, age_cutoff: 1.0 });
                c.cache_bytes = 0;
                let seed = vec![Op::Seq { ops: (0..3u8).map(|k| Op::Put { k, big: true }).collect() }, Op::Flush { w: Wm::Tight }];
                let mut am = Alphabet::default();
                am.major = vec![u64::MAX];
                am.put_f_big = true;
                am.del_f = true;
                am.wms = vec![Wm::Tight];
                am.reopen = true;
                let bd = if quick { bs(2, 2, 0, 1, 0) } else { bs(3, 3, 0, 1, 0) };
                push(format!("{prop}-stale-then-rewritten"), c, &am, bd, vec![seed]);
            }
            if quick {
                push(format!("{prop}-t16-default"), mk(16, 64 << 20, 0.25, 0.25), &a, bs(2, 2, 1, 1, 1), vec![vec![]]);
                push(format!("{prop}-t1"), mk(1, 64 << 20, 0.25, 1.0), &a, bs(2, 2, 0, 1, 1), vec![vec![]]);
                if prop == "C08" {
                    push(format!("{prop}-t1000"), mk(1000, 64 << 20, 0.25, 0.25), &a, bs(2, 1, 1, 1, 0), vec![vec![]]);
                }
            } else {
                for th in [1u32, 16, 1000] {
                    for ft in [1u64, 64 << 20] {
                        for st in [0.0f32, 0.25, 1.0] {
                            for ac in [0.25f32, 1.0] {
                                if prop == "C09" && th == 1000 {
                                    continue;
                                }
                                push(format!("{prop}-t{th}-f{ft}-s{st}-a{ac}"), mk(th, ft, st, ac), &a, bs(2, 2, 1, 1, 1), seeds_upto(1));
                            }
                        }
                    }
                }
                push(format!("{prop}-t16-aggressive-33"), mk(16, 1, 0.0, 1.0), &a, bs(3, 3, 1, 1, 1), vec![vec![]]);
            }
            if !quick && prop == "C09" {
                // (C09 only: the C08 oracle replays the history on a twin tree and compares every key at
                // every snapshot pair, minutes per state with 72 MB of keys)
                // one ingestion large enough (> 64 MiB of index data, reached with 60 000-byte keys) to
                // make the ingestion's table writer rotate: the blob links of the batch are spread over
                // two tables, which are then dropped separately / merged / recovered
                let (n, len) = (1200u32, 60_000u32);
                let mut c = TreeCfg::small(vec![]);
                c.gen_keys = Some((n, len));
                c.blob = Some(BlobCfg { threshold: 16, file_target: 64 << 20, staleness: 0.25, age_cutoff: 1.0 });
                c.block_size = 4096;
                let key = |i: u32| {
                    let mut k = format!("{i:08}").into_bytes();
                    k.resize(len as usize, b'x');
                    k
                };
                let mut am = Alphabet::default();
                am.drop_ranges = vec![(Bnd::Unb, Bnd::Inc(key(1150))), (Bnd::Exc(key(1150)), Bnd::Unb)];
                am.major = vec![u64::MAX];
                am.wms = vec![Wm::Tight];
                am.reopen = true;
                push(format!("{prop}-bulk-ingest-rotation"), c.clone(), &am, bs(0, 1, 0, 1, 2), vec![vec![Op::IngestRange { lo: 0, hi: n }]]);
                // the same through the flush path: one memtable with > 64 MiB of keys, every value
                // separated (threshold 1), one blob file per value (file target 1), so that the flush's
                // table writer rotates between two blob links (round-3 seeded change C08-5)
                let mut cf = c;
                cf.blob = Some(BlobCfg { threshold: 1, file_target: 1, staleness: 0.25, age_cutoff: 1.0 });
                let puts: Vec<Op> = (0..n).map(|k| Op::PutIdx { k }).collect();
                push(
                    format!("{prop}-bulk-flush-rotation"),
                    cf,
                    &am,
                    bs(0, 1, 0, 1, 2),
                    vec![vec![Op::Seq { ops: puts }, Op::Flush { w: Wm::Tight }]],
                );
            }
            if prop == "C09" {
                // compaction filter on the blob tree: Remove on a, ReplaceBig on b
                use crate::cfilter::VerdictSpec;
                let mut c = mk(16, 1, 0.0, 1.0);
                c.filter_verdicts = Some(vec![VerdictSpec::Remove, VerdictSpec::ReplaceBig]);
                let mut af = a.clone();
                af.drop_ranges.clear();
                af.ingests.clear();
                af.clear = false;
                push(format!("{prop}-filter"), c, &af, if quick { bs(2, 2, 0, 0, 0) } else { bs(3, 2, 0, 1, 0) }, seeds_upto(1));
            }
        }
        "C13" => {
            let mut a = if quick { Alphabet::lean() } else { Alphabet::core() };
            a.wdel_discipline = true;
            a.wdel_ingest = true;
            a.snap = true;
            let bd = if quick { b(3, 2, 1, 1) } else { b(4, 3, 2, 1) };
            v.push(std(
                "C13-discipline",
                TreeCfg::small(keys_ab()),
                a.clone(),
                bd,
                vec![vec![]],
                OracleKind::C13,
            ));
            {
                // separation threshold 0: even an empty value is "large"
                let c0 = TreeCfg::small(keys_ab()).with_blob(0);
                v.push(std(
                    "C13-discipline-blob0",
                    c0,
                    a.clone(),
                    if quick { b(2, 2, 0, 1) } else { b(3, 3, 1, 1) },
                    vec![vec![]],
                    OracleKind::C13,
                ));
            }
            {
                // weak tombstones and their values meeting in merges chosen by score between over-full
                // levels (leveled parameter set 2), with tombstone eviction at the last level
                let mut ac = Alphabet::default();
                ac.wdel_discipline = true;
                ac.flush = true;
                ac.leveled = vec![2];
                ac.wms = vec![Wm::Tight, Wm::Zero];
                ac.snap = !quick;
                let bd = if quick { bs(4, 4, 0, 0, 0) } else { bs(5, 5, 1, 1, 0) };
                v.push(std("C13-cascade", TreeCfg::small(keys_ab()), ac.clone(), bd, vec![vec![]], OracleKind::C13));
                // the same on a key-value separated tree whose threshold makes every value a blob
                let bdb = if quick { bs(3, 3, 0, 0, 0) } else { bs(4, 4, 1, 1, 0) };
                v.push(std("C13-cascade-blob0", TreeCfg::small(keys_ab()).with_blob(0), ac, bdb, vec![vec![]], OracleKind::C13));
            }
            {
                // one key whose first value already lies in the last level: later weak tombstones and
                // values meet (or do not meet) in flushes and partial merges above it
                let mut ad = Alphabet::default();
                ad.wdel_discipline = true;
                ad.flush = true;
                ad.pulldown = vec![(0, 3), (3, 6)];
                ad.wms = vec![Wm::Tight, Wm::Zero];
                ad.snap = true;
                let seed = vec![Op::Put { k: 0, big: false }, Op::Flush { w: Wm::Zero }, Op::PullDown { from: 0, to: 6, w: Wm::Zero }];
                v.push(std(
                    "C13-deep-value",
                    TreeCfg::small(vec![b"a".to_vec()]),
                    ad,
                    if quick { bs(4, 3, 1, 0, 0) } else { bs(5, 5, 1, 1, 0) },
                    vec![seed],
                    OracleKind::C13,
                ));
            }
            if !quick {
                let mut c = TreeCfg::small(keys_ab()).with_blob(1);
                c.block_size = 4096;
                v.push(std(
                    "C13-discipline-blob",
                    c,
                    a.clone(),
                    b(4, 2, 1, 1),
                    vec![vec![]],
                    OracleKind::C13,
                ));
            }
        }
        "C14" => {
            let mut a = if quick { Alphabet::lean() } else { Alphabet::core() };
            a.batch = false;
            a.ingests = ingest_batches();
            a.snap = true;
            a.movedown = vec![(0, 1)];
            a.pulldown = vec![];
            a.major = vec![1];
            a.flush_sealed = false;
            {
                // several keys per data block (the ingested table and the older tables it shadows are
                // each a single block): scans from both ends meet inside one block
                // (five keys: the merge and the MVCC filter read a few items ahead of what has been
                // returned, so the cursors only meet inside a block that holds several entries)
                let keys5: Vec<Vec<u8>> = b"abcde".iter().map(|b| vec![*b]).collect();
                let mut c = TreeCfg::small(keys5);
                c.block_size = 4096;
                let mut a4 = a.clone();
                a4.put = false;
                a4.del = false;
                a4.ingests = vec![
                    (0..5u8).map(|k| (k, IKind::Val)).collect(),
                    (0..5u8).map(|k| (k, if k == 0 { IKind::Val } else { IKind::Tomb })).collect(),
                    (0..5u8).map(|k| (k, if k == 0 { IKind::Tomb } else { IKind::Val })).collect(),
                ];
                a4.extra = vec![Op::MultiPut { ks: vec![0, 1, 2, 3, 4] }, Op::MultiDel { ks: vec![1, 2, 3, 4] }];
                let bd = if quick { bs(3, 2, 1, 0, 0) } else { bs(4, 2, 1, 1, 0) };
                v.push(std("C14-block4096", c, a4, bd, vec![vec![]], OracleKind::C14));
                // key-value separated tree: its ingestion has its own finish path
                let mut ab = a.clone();
                ab.ingests.push(vec![(0, IKind::BigVal)]);
                if quick {
                    ab.ingests = vec![vec![(0, IKind::Val)], vec![(0, IKind::BigVal), (1, IKind::Tomb)]];
                    v.push(std("C14-blob-quick", TreeCfg::small(keys_ab()).with_blob(16), ab, bs(2, 2, 1, 1, 0), vec![vec![]], OracleKind::C14));
                }
            }
            {
                // ingested tables (global seqno) travelling through a cascade of over-full levels
                let mut ac = cascade_alphabet();
                ac.ingests = vec![
                    vec![(0, IKind::Val), (1, IKind::Val), (2, IKind::Val)],
                    vec![(0, IKind::Tomb), (2, IKind::Val)],
                    vec![(1, IKind::Val)],
                ];
                ac.snap = true;
                let bd = if quick { bs(2, 1, 1, 0, 0) } else { bs(4, 2, 1, 1, 0) };
                v.push(std("C14-cascade-k3", TreeCfg::small(keys_abc()), ac, bd, vec![vec![]], OracleKind::C14));
            }
            if quick {
                v.push(std(
                    "C14-std",
                    TreeCfg::small(keys_ab()),
                    a.clone(),
                    b(2, 1, 1, 1),
                    crate::scen::seeds_with_deep(1),
                    OracleKind::C14,
                ));
            } else {
                v.push(std(
                    "C14-std",
                    TreeCfg::small(keys_ab()),
                    a.clone(),
                    b(3, 2, 1, 1),
                    seeds_upto(1),
                    OracleKind::C14,
                ));
                let mut ab = a.clone();
                ab.ingests.push(vec![(0, IKind::BigVal)]);
                // (no weak tombstones here: on keys written more than once they may legitimately
                // resurrect an older value, which is outside C14 and C13's discipline)
                v.push(std(
                    "C14-blob",
                    TreeCfg::small(keys_ab()).with_blob(16),
                    ab,
                    b(2, 2, 1, 1),
                    seeds_upto(1),
                    OracleKind::C14,
                ));
            }
        }
        _ => {}
    }
    v
}

/// Fixed histories demonstrating recorded findings (DESIGN 8); reported as `probe:<name>`.
pub fn probes(prop: &str) -> Vec<(String, Arc<dyn Scenario>, Vec<Op>)> {
    let mut v = vec![];
    if prop == "C01" || prop == "C07" {
        let oracle = if prop == "C01" { OracleKind::C01 } else { OracleKind::C07 };
        let sc = std(
            &format!("{prop}-probe"),
            TreeCfg::small(keys_ab()),
            Alphabet::core(),
            b(0, 0, 0, 0),
            vec![vec![]],
            oracle,
        );
        v.push((
            "leveled-after-movedown-of-overlapping-runs".to_string(),
            sc,
            vec![
                Op::MultiPut { ks: vec![0, 1] },
                Op::Flush { w: Wm::Zero },
                Op::MultiPut { ks: vec![0, 1] },
                Op::Flush { w: Wm::Zero },
                Op::MoveDown { from: 0, to: 1, w: Wm::Zero },
                Op::Leveled { w: Wm::Zero, p: 0 },
            ],
        ));
    }
    v
}

pub fn find_scenario(prop: &str, name: &str) -> Option<Arc<dyn Scenario>> {
    for tier in ["quick", "thorough"] {
        for s in scenarios(prop, tier) {
            if s.name() == name {
                return Some(s);
            }
        }
    }
    for (_, s, _) in probes(prop) {
        if s.name() == name {
            return Some(s);
        }
    }
    None
}

#[allow(dead_code)]
pub fn unused(_: Wm) {}
