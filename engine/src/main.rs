mod blobmc;
mod cfgmc;
mod cfilter;
mod corrupt;
mod crash;
mod driver;
mod evidence;
mod fsx;
mod hx;
mod manifest;
mod model;
mod ops;
mod oracles;
mod registry;
mod scanmc;
mod scen;
mod sched;
mod strace;
mod tablemc;

use std::sync::Arc;

fn usage() -> ! {
    eprintln!("usage: engine hx <PROP> <quick|thorough> | engine replay <file>");
    std::process::exit(2);
}

fn main() {
    // panics inside explored histories are outcomes; keep stderr quiet but keep the message
    std::panic::set_hook(Box::new(|info| {
        // only the main thread's own panics (machinery) are shown; see the catch_unwind below
        if std::env::var("VERIF_SHOW_PANICS").is_ok() || std::thread::current().name() == Some("main") {
            eprintln!("panic: {info}");
        }
    }));
    let args: Vec<String> = std::env::args().collect();
    if args.len() < 2 {
        usage();
    }
    let code = std::panic::catch_unwind(|| dispatch(&args)).unwrap_or_else(|p| {
        eprintln!("MACHINERY: the engine itself panicked: {}", hx::panic_message(&p));
        2
    });
    std::process::exit(code);
}

fn dispatch(args: &[String]) -> i32 {
    let code = match args[1].as_str() {
        "hx" | "check" => {
            if args.len() < 4 {
                usage();
            }
            match args[2].as_str() {
                "C12" => run_tablemc(&args[3]),
                "C10" => run_corrupt(&args[3]),
                "C16" => run_fault(&args[3]),
                "C05" => run_crash(&args[3]),
                "C06" => run_sched(&args[3]),
                "C11" => run_cfg(&args[3]),
                "C20" => run_c20(&args[3]),
                "C18" => run_c18(&args[3]),
                _ => run_hx(&args[2], &args[3]),
            }
        }
        "replay" => {
            if args.len() < 3 {
                usage();
            }
            run_replay(&args[2])
        }
        "corrupt-worker" => corrupt::worker_main(),
        "cfgmc-share" => cfgmc::share_worker_main(&args[2]),
        "fs-subject" => fsx::subject_main(&args[2]),
        _ => usage(),
    };
    code
}

fn threads() -> usize {
    std::env::var("VERIF_THREADS")
        .ok()
        .and_then(|s| s.parse().ok())
        .unwrap_or_else(|| {
            std::thread::available_parallelism()
                .map(|n| n.get())
                .unwrap_or(8)
        })
}

fn run_hx(prop: &str, tier: &str) -> i32 {
    let start = std::time::Instant::now();
    let mut scs = registry::scenarios(prop, tier);
    if let Ok(only) = std::env::var("VERIF_ONLY") {
        // debugging aid: run only the scenarios whose name contains the given text
        scs.retain(|s| s.name().contains(&only));
    }
    if scs.is_empty() {
        eprintln!("no hx scenarios for {prop} {tier}");
        return 2;
    }
    let (max_wall, max_nodes) = registry::caps(tier);
    let known = evidence::load_known();
    let mut all_found: Vec<(Arc<dyn hx::Scenario>, hx::Found)> = vec![];
    let mut per_scenario = vec![];
    let mut nodes = 0u64;
    let mut states = 0u64;
    let mut ops_replayed = 0u64;
    let mut outcomes = 0u64;
    let mut capped = false;
    let mut samples: Vec<String> = vec![];
    let mut max_depth = 0usize;
    let mut op_stats: std::collections::BTreeMap<String, (u64, u64)> = Default::default();
    let n_sc = scs.len();
    // small scenarios first: each gets a fair share of what is left, so the large ones at the end
    // inherit whatever the small ones did not need
    let mut scs = scs;
    {
        let est_dir = hx::scratch_root().join("estimate");
        let mut keyed: Vec<(f64, Arc<dyn hx::Scenario>)> = scs
            .drain(..)
            .map(|sc| {
                let seeds = sc.seeds();
                let first = seeds.first().cloned().unwrap_or_default();
                hx::fresh_dir(&est_dir);
                let a = match sc.make_driver(&est_dir) {
                    Ok(mut d) => {
                        for op in &first {
                            let _ = d.apply(op);
                        }
                        sc.enabled(&d, &first).len().max(1)
                    }
                    Err(_) => 1,
                };
                let b = sc.budget();
                let depth = (b.data + b.maint + b.snap + b.reopen + b.special) as i32;
                ((seeds.len().max(1) as f64) * (a as f64).powi(depth.min(7)), sc)
            })
            .collect();
        keyed.sort_by(|x, y| x.0.partial_cmp(&y.0).unwrap_or(std::cmp::Ordering::Equal));
        scs = keyed.into_iter().map(|x| x.1).collect();
        let _ = std::fs::remove_dir_all(&est_dir);
    }
    for (sci, sc) in scs.into_iter().enumerate() {
        // fair share of what is left, so that one large scenario cannot starve the others
        let left = (n_sc - sci) as f64;
        let remaining = ((max_wall - start.elapsed().as_secs_f64()) / left).max(1.0);
        let lim = hx::Limits {
            max_nodes,
            max_wall_s: remaining,
            threads: threads(),
            known_sigs: known.iter().filter(|k| k.property == prop).map(|k| k.sig.clone()).collect(),
        };
        let r = hx::explore(sc.clone(), &lim);
        eprintln!(
            "[hx {prop}] {}: nodes={} states={} outcomes={} noop_pruned={} depth<={} violations={} capped={} {:.1}s",
            r.scenario, r.nodes, r.states, r.outcomes, r.noop_pruned, r.max_depth, r.found.len(), r.capped, r.wall_s
        );
        nodes += r.nodes;
        states += r.states;
        ops_replayed += r.ops_replayed;
        outcomes += r.outcomes;
        capped |= r.capped;
        max_depth = max_depth.max(r.max_depth);
        for s in r.samples.iter().take(3) {
            if samples.len() < 12 {
                samples.push(format!("{}: {}", r.scenario, s));
            }
        }
        for (k, (a, b)) in &r.op_stats {
            let e = op_stats.entry(k.clone()).or_insert((0, 0));
            e.0 += a;
            e.1 += b;
        }
        per_scenario.push(serde_json::json!({
            "scenario": r.scenario, "seeds": r.seeds, "histories": r.nodes, "distinct_states": r.states,
            "distinct_outcomes": r.outcomes, "noop_pruned": r.noop_pruned, "max_depth": r.max_depth,
            "capped": r.capped, "wall_s": r.wall_s, "complete_below_depth_when_capped": r.complete_below_depth,
            "budget": serde_json::to_value(sc.budget()).unwrap(),
            "extra": sc.extra_evidence(),
        }));
        for f in hx::minimal_per_sig(&r.found) {
            all_found.push((sc.clone(), f));
        }
    }

    // fixed probe histories for recorded findings whose trigger the alphabets exclude on purpose
    for (name, sc, ops_) in registry::probes(prop) {
        let dir = hx::scratch_root().join("probe");
        let (v, _) = hx::run_history(sc.as_ref(), &dir, &ops_, false);
        if let Some(first) = v.first() {
            all_found.push((
                sc.clone(),
                hx::Found {
                    sig: format!("probe:{name}"),
                    msg: format!("{} [{}]", first.msg, first.sig),
                    ops: ops_.clone(),
                },
            ));
        }
    }

    // classify: known findings vs new violations; confirm each by replaying twice
    let mut exit = 0;
    let mut n_viol = 0i64;
    let mut n_known = 0i64;
    let mut seen_sigs = std::collections::BTreeSet::new();
    let dir = hx::scratch_root().join("confirm");
    for (sc, f) in &all_found {
        if !seen_sigs.insert(f.sig.clone()) {
            continue;
        }
        let (v1, _) = hx::run_history(sc.as_ref(), &dir, &f.ops, false);
        let (v2, _) = hx::run_history(sc.as_ref(), &dir, &f.ops, false);
        let s1: Vec<_> = v1.iter().map(|x| x.sig.clone()).collect();
        let s2: Vec<_> = v2.iter().map(|x| x.sig.clone()).collect();
        let is_probe = f.sig.starts_with("probe:");
        if s1 != s2 || (!is_probe && !s1.contains(&f.sig)) || (is_probe && s1.is_empty()) {
            eprintln!(
                "MACHINERY: violation {} did not replay deterministically ({s1:?} vs {s2:?}) for {}",
                f.sig,
                ops::short_hist(&f.ops)
            );
            exit = 2;
            continue;
        }
        if let Some(k) = evidence::is_known(&known, prop, &f.sig) {
            println!("KNOWN-FINDING: property={prop} sig={} {}", k.sig, k.text);
            n_known += 1;
            continue;
        }
        n_viol += 1;
        let path = evidence::replay_path(prop, &f.sig);
        let rp = hx::Replay {
            engine: "hx".into(),
            property: prop.into(),
            scenario: sc.name(),
            cfg: sc.cfg(),
            ops: f.ops.clone(),
            sig: f.sig.clone(),
            msg: f.msg.clone(),
            history: ops::short_hist(&f.ops),
        };
        evidence::write_replay(&path, &serde_json::to_value(&rp).unwrap());
        println!("VIOLATION property={prop} replay={}", path.display());
        eprintln!("  sig={} history=[{}]\n  {}", f.sig, rp.history, f.msg);
        if exit == 0 {
            exit = 1;
        }
    }
    let _ = std::fs::remove_dir_all(hx::scratch_root());

    let ev = evidence::Evidence {
        property: prop.into(),
        tier: tier.into(),
        level: "model_checking".into(),
        coverage: serde_json::json!({
            "states": states,
            "transitions": nodes,
            "traces_validated_against_impl": nodes,
            "evaluations": nodes,
            "distinct_nontrivial": states,
            "rule": "every operation history within the per-class budgets (data/maintenance/snapshot/reopen) from every seed history, replayed on the real tree and the reference model; a history is non-trivial/distinct when its final state digest (version structure, table contents summary, memtable items, version history, snapshots, counters) differs from all others",
            "samples": samples,
            "exhaustive": !capped,
            "capped": capped,
            "scenarios": per_scenario,
            "scenario_count": n_sc,
            "ops_replayed": ops_replayed,
            "distinct_outcomes": outcomes,
            "max_depth": max_depth,
            "op_stats_executed_effective": op_stats.iter().map(|(k,(a,b))| (k.clone(), serde_json::json!([a,b]))).collect::<serde_json::Map<_,_>>(),
            "known_findings_matched": n_known,
        }),
        assumptions: vec![
            "bounded: only histories within the stated budgets and alphabets are covered".into(),
            "the reference model (ordered multi-version map) is the specification".into(),
            "single-threaded histories; file system behaves (tmpfs), no faults".into(),
        ],
        wall_s: start.elapsed().as_secs_f64(),
        violations: n_viol,
    };
    evidence::write_evidence(&ev);
    eprintln!(
        "[hx {prop} {tier}] histories={nodes} states={states} violations={n_viol} known={n_known} capped={capped} wall={:.1}s",
        start.elapsed().as_secs_f64()
    );
    exit
}

/// Shared verdict logic: prints KNOWN-FINDING / VIOLATION lines, writes replay files.
/// `items` = (sig, msg, replay json). Returns (exit code, violations, known).
fn report(prop: &str, items: Vec<(String, String, serde_json::Value)>) -> (i32, i64, i64) {
    let known = evidence::load_known();
    let mut exit = 0;
    let (mut n_viol, mut n_known) = (0i64, 0i64);
    let mut seen = std::collections::BTreeSet::new();
    for (sig, msg, rp) in items {
        if !seen.insert(sig.clone()) {
            continue;
        }
        if let Some(k) = evidence::is_known(&known, prop, &sig) {
            println!("KNOWN-FINDING: property={prop} sig={} {}", k.sig, k.text);
            n_known += 1;
            continue;
        }
        n_viol += 1;
        let path = evidence::replay_path(prop, &sig);
        evidence::write_replay(&path, &rp);
        println!("VIOLATION property={prop} replay={}", path.display());
        eprintln!("  sig={sig}\n  {msg}");
        exit = 1;
    }
    (exit, n_viol, n_known)
}

fn run_corrupt(tier: &str) -> i32 {
    let (max_wall, _) = registry::caps(tier);
    let o = corrupt::run(tier, threads(), max_wall);
    let mut items = vec![];
    let mut seen = std::collections::BTreeSet::new();
    let mut exit2 = !o.harness_errors.is_empty();
    for e in o.harness_errors.iter().take(10) {
        eprintln!("MACHINERY: {e}");
    }
    for c in &o.found {
        if !seen.insert(c.sig.clone()) {
            continue;
        }
        let r1 = corrupt::replay(c);
        let r2 = corrupt::replay(c);
        if !r1.starts_with("DIFF") || !r2.starts_with("DIFF") {
            eprintln!("MACHINERY: corrupt case {} did not replay as a silent difference ({r1} / {r2})", c.sig);
            exit2 = true;
            continue;
        }
        items.push((c.sig.clone(), c.msg.clone(), serde_json::to_value(c).unwrap()));
    }
    let (mut exit, n_viol, n_known) = report("C10", items);
    if exit2 && exit == 0 {
        exit = 2;
    }
    let _ = std::fs::remove_dir_all(hx::scratch_root());
    let ev = evidence::Evidence {
        property: "C10".into(),
        tier: tier.into(),
        level: "fault_enumeration".into(),
        coverage: serde_json::json!({
            "evaluations": o.mutants,
            "distinct_nontrivial": o.mutants - o.same,
            "rule": "every byte of every file of each persisted subject tree x {single-bit flips (quick: masks 0x01,0x80; thorough: all 8), byte:=0x00, byte:=0xFF (thorough)} and truncation to every length (quick: every 7th for files > 64 bytes); each mutant is a distinct corrupted directory opened cold in a worker process and read completely; non-trivial = the outcome differs from the baseline run in any way (error, panic, abort, timeout or different answer)",
            "samples": o.samples,
            "exhaustive": !o.capped,
            "capped": o.capped,
            "files": o.files,
            "bytes": o.bytes,
            "outcomes": {"same": o.same, "error": o.err, "panic": o.panic, "abort": o.abort, "timeout": o.timeout, "different_answer": o.diff},
            "loud_failures_not_raised": o.loud,
            "known_findings_matched": n_known,
        }),
        assumptions: vec![
            "single corruption per mutant (one bit / one byte / one truncation)".into(),
            "panics, aborts and timeouts are loud failures: counted, not raised".into(),
        ],
        wall_s: o.wall_s,
        violations: n_viol,
    };
    evidence::write_evidence(&ev);
    eprintln!(
        "[corrupt C10 {tier}] files={} bytes={} mutants={} same={} err={} panic={} abort={} timeout={} DIFF={} capped={} wall={:.1}s",
        o.files, o.bytes, o.mutants, o.same, o.err, o.panic, o.abort, o.timeout, o.diff, o.capped, o.wall_s
    );
    for l in o.loud.iter().take(12) {
        eprintln!("  loud: {l}");
    }
    exit
}

fn run_fault(tier: &str) -> i32 {
    let (max_wall, _) = registry::caps(tier);
    // three quick histories need ~50 s on the idle machine; give the quick tier 58 s instead of 45
    let max_wall = if tier == "quick" && std::env::var("VERIF_MAX_WALL_S").is_err() { 58.0 } else { max_wall };
    let o = fsx::run_faults(tier, threads(), max_wall);
    let mut exit2 = false;
    for m in o.machinery.iter().take(10) {
        eprintln!("MACHINERY: {m}");
        exit2 = true;
    }
    let mut items = vec![];
    let mut seen = std::collections::BTreeSet::new();
    for f in &o.found {
        if !seen.insert(f.sig.clone()) {
            continue;
        }
        // confirm by replaying twice
        let r1 = fsx::replay_fault(f);
        let r2 = fsx::replay_fault(f);
        match (&r1, &r2) {
            (Ok(a), Ok(b)) if !a.is_empty() && a.len() == b.len() => {
                items.push((f.sig.clone(), f.msg.clone(), serde_json::to_value(f).unwrap()));
            }
            _ => {
                eprintln!("MACHINERY: fault case {} did not replay deterministically ({r1:?} / {r2:?})", f.sig);
                exit2 = true;
            }
        }
    }
    let (mut exit, n_viol, n_known) = report("C16", items);
    if exit2 && exit == 0 {
        exit = 2;
    }
    let _ = std::fs::remove_dir_all(hx::scratch_root());
    let ev = evidence::Evidence {
        property: "C16".into(),
        tier: tier.into(),
        level: "fault_enumeration".into(),
        coverage: serde_json::json!({
            "evaluations": o.runs,
            "distinct_nontrivial": o.op_failed,
            "rule": "for every history, every op and every file-system call the op issues in the clean syscall log (openat, read, pread64, write, pwrite64, fsync, rename*, unlink*, mkdir, statx, getdents64, ...), one run per applicable errno (ENOSPC/EIO) and per continuation (retry the op / reopen at once / go on with the rest of the history without repeating the call, the expected states then being those of the history without that op; quick runs the last two only for calls that change the file system) with exactly that call failing via strace fault injection; a run is non-trivial when the injected failure made the operation return an error (otherwise the fault was absorbed and the run must equal the clean run)",
            "samples": o.samples,
            "exhaustive": !o.capped,
            "capped": o.capped,
            "histories": o.histories,
            "fault_points": o.points,
            "runs_op_returned_error": o.op_failed,
            "runs_fault_absorbed": o.swallowed,
            "runs_fault_point_not_reached": o.not_reached,
            "known_findings_matched": n_known,
        }),
        assumptions: vec![
            "single fault per run; the failing call is not executed and returns the error (strace inject)".into(),
            "syscall ordinals are taken from a clean traced run of the same deterministic subject".into(),
        ],
        wall_s: o.wall_s,
        violations: n_viol,
    };
    evidence::write_evidence(&ev);
    eprintln!(
        "[fault C16 {tier}] histories={} points={} runs={} op_failed={} absorbed={} not_reached={} violations={n_viol} known={n_known} capped={} wall={:.1}s",
        o.histories, o.points, o.runs, o.op_failed, o.swallowed, o.not_reached, o.capped, o.wall_s
    );
    exit
}

/// C18 = history exploration (exact marks) + the marks under a concurrent flush (never below an acknowledged write).
fn run_c18(tier: &str) -> i32 {
    let (max_wall, _) = registry::caps(tier);
    let sched_budget = if tier == "quick" { 8.0 } else { 120.0 };
    std::env::set_var("VERIF_MAX_WALL_S", format!("{}", (max_wall - sched_budget).max(10.0)));
    let rc = run_hx("C18", tier);
    std::env::remove_var("VERIF_MAX_WALL_S");
    if rc == 2 {
        return 2;
    }
    let o = sched::run_scenarios(tier, threads(), sched_budget, sched::scenarios_c18(), "C18");
    let mut exit2 = false;
    for m in o.machinery.iter().take(5) {
        eprintln!("MACHINERY: {m}");
        exit2 = true;
    }
    let mut items = vec![];
    let mut seen = std::collections::BTreeSet::new();
    let mut found = o.found.clone();
    found.sort_by_key(|f| (f.sig.clone(), f.schedule.len()));
    for f in &found {
        // the C06 oracles also run in this scenario; only the marks belong to C18
        if f.sig != "highest-seqno-below-acknowledged-write" || !seen.insert(f.sig.clone()) {
            continue;
        }
        let r1: Vec<String> = sched::replay(f).into_iter().map(|x| x.0).collect();
        let r2: Vec<String> = sched::replay(f).into_iter().map(|x| x.0).collect();
        if r1 != r2 || !r1.contains(&f.sig) {
            eprintln!("MACHINERY: schedule {:?} did not replay deterministically for {}", f.schedule, f.sig);
            exit2 = true;
            continue;
        }
        items.push((f.sig.clone(), format!("{} [schedule {:?}]", f.msg, f.schedule), serde_json::to_value(f).unwrap()));
    }
    let (exit, n_viol, _) = report("C18", items);
    let _ = std::fs::remove_dir_all(hx::scratch_root());
    let p = evidence::verif_root().join("evidence/C18.json");
    if let Ok(s) = std::fs::read_to_string(&p) {
        if let Ok(mut v) = serde_json::from_str::<serde_json::Value>(&s) {
            v["coverage"]["concurrent_marks"] = serde_json::json!({
                "scenario": "writer | rotate+flush | 2 x get_highest_seqno", "schedules_executed": o.executions,
                "preemption_bound_completed": o.bound_completed, "capped": o.capped,
                "rule": "under every schedule with at most 2 (3) preemptions get_highest_seqno() is never below a write acknowledged before the call",
            });
            v["violations"] = serde_json::json!(v["violations"].as_i64().unwrap_or(0) + n_viol);
            let _ = std::fs::write(&p, serde_json::to_string_pretty(&v).unwrap());
        }
    }
    eprintln!("[sched C18 {tier}] executions={} bounds={:?} violations={n_viol} capped={}", o.executions, o.bound_completed, o.capped);
    if exit2 {
        2
    } else if rc == 1 || exit == 1 {
        1
    } else {
        0
    }
}

/// C20 = history exploration (directory listing oracle) + every recovered crash image must be free of leftovers.
fn run_c20(tier: &str) -> i32 {
    let (max_wall, _) = registry::caps(tier);
    // reserve a slice of the budget for the crash images
    let crash_budget = if tier == "quick" { 12.0 } else { 180.0 };
    let fault_budget = if tier == "quick" { 10.0 } else { 150.0 };
    std::env::set_var("VERIF_MAX_WALL_S", format!("{}", (max_wall - crash_budget - fault_budget).max(10.0)));
    let rc = run_hx("C20", tier);
    std::env::remove_var("VERIF_MAX_WALL_S");
    if rc == 2 {
        return 2;
    }
    let o = crash::run(tier, threads(), crash_budget, true);
    let mut exit2 = false;
    for m in o.machinery.iter().take(10) {
        eprintln!("MACHINERY: {m}");
        exit2 = true;
    }
    let mut items = vec![];
    let mut seen = std::collections::BTreeSet::new();
    for f in &o.found {
        if !seen.insert(f.sig.clone()) {
            continue;
        }
        let r1 = crash::replay(f);
        let r2 = crash::replay(f);
        if r1 != r2 || !r1.starts_with("VIOLATION") {
            eprintln!("MACHINERY: crash-leftover case {} did not replay deterministically ({r1} / {r2})", f.sig);
            exit2 = true;
            continue;
        }
        items.push((f.sig.clone(), f.msg.clone(), serde_json::to_value(f).unwrap()));
    }
    let (exit, n_viol, n_known) = report("C20", items);
    let _ = std::fs::remove_dir_all(hx::scratch_root());
    // extend the evidence file the hx part has just written
    let p = evidence::verif_root().join("evidence/C20.json");
    if let Ok(s) = std::fs::read_to_string(&p) {
        if let Ok(mut v) = serde_json::from_str::<serde_json::Value>(&s) {
            v["coverage"]["crash_images"] = serde_json::json!({
                "histories": o.histories, "crash_points": o.cuts, "distinct_images": o.images, "images_checked": o.images_checked,
                "images_without_leftovers": o.ok_after, "capped": o.capped, "known_findings_matched": n_known,
                "rule": "every crash image of the C05 enumeration is recovered and the directory must then hold only files the recovered version names",
            });
            v["violations"] = serde_json::json!(v["violations"].as_i64().unwrap_or(0) + n_viol);
            if o.capped {
                v["coverage"]["capped"] = serde_json::json!(true);
                v["coverage"]["exhaustive"] = serde_json::json!(false);
            }
            let _ = std::fs::write(&p, serde_json::to_string_pretty(&v).unwrap());
        }
    }
    eprintln!("[crash C20 {tier}] images={} checked={} leftover_violations={n_viol} capped={}", o.images, o.images_checked, o.capped);
    // failed operations that leave partial files: every file-system-changing call of every op failed
    // once, then reopen: no live file may be gone, nothing the recovered version does not name may be left
    let fo = fsx::run_faults_for(tier, threads(), fault_budget, true);
    for m in fo.machinery.iter().take(10) {
        eprintln!("MACHINERY: {m}");
        exit2 = true;
    }
    let mut fitems = vec![];
    let mut fseen = std::collections::BTreeSet::new();
    for f in &fo.found {
        if !fseen.insert(f.sig.clone()) {
            continue;
        }
        let r1 = fsx::replay_fault(f);
        let r2 = fsx::replay_fault(f);
        match (&r1, &r2) {
            (Ok(a), Ok(b)) if !a.is_empty() && a.len() == b.len() => {
                fitems.push((f.sig.clone(), f.msg.clone(), serde_json::to_value(f).unwrap()));
            }
            _ => {
                eprintln!("MACHINERY: fault case {} did not replay deterministically ({r1:?} / {r2:?})", f.sig);
                exit2 = true;
            }
        }
    }
    let (fexit, f_viol, f_known) = report("C20", fitems);
    let _ = std::fs::remove_dir_all(hx::scratch_root());
    if let Ok(s) = std::fs::read_to_string(&p) {
        if let Ok(mut v) = serde_json::from_str::<serde_json::Value>(&s) {
            v["coverage"]["failed_operations"] = serde_json::json!({
                "histories": fo.histories, "fault_points": fo.points, "runs": fo.runs, "runs_op_returned_error": fo.op_failed,
                "capped": fo.capped, "known_findings_matched": f_known,
                "rule": "every file-system-changing call of every op of the C16 histories failed once (strace fault injection); the tree is dropped and reopened: the open must succeed (no live file was deleted) and the directory must then hold only files the recovered version names",
            });
            v["violations"] = serde_json::json!(v["violations"].as_i64().unwrap_or(0) + f_viol);
            if fo.capped {
                v["coverage"]["capped"] = serde_json::json!(true);
                v["coverage"]["exhaustive"] = serde_json::json!(false);
            }
            let _ = std::fs::write(&p, serde_json::to_string_pretty(&v).unwrap());
        }
    }
    eprintln!("[fault C20 {tier}] points={} runs={} op_failed={} violations={f_viol} capped={}", fo.points, fo.runs, fo.op_failed, fo.capped);
    if exit2 {
        2
    } else if rc == 1 || exit == 1 || fexit == 1 {
        1
    } else {
        0
    }
}

fn run_crash(tier: &str) -> i32 {
    let (max_wall, _) = registry::caps(tier);
    let o = crash::run(tier, threads(), max_wall, false);
    let mut exit2 = false;
    for m in o.machinery.iter().take(10) {
        eprintln!("MACHINERY: {m}");
        exit2 = true;
    }
    let mut items = vec![];
    let mut seen = std::collections::BTreeSet::new();
    for f in &o.found {
        if !seen.insert(f.sig.clone()) {
            continue;
        }
        let r1 = crash::replay(f);
        let r2 = crash::replay(f);
        if r1 != r2 || !r1.starts_with("VIOLATION") {
            eprintln!("MACHINERY: crash case {} did not replay deterministically ({r1} / {r2})", f.sig);
            exit2 = true;
            continue;
        }
        items.push((f.sig.clone(), f.msg.clone(), serde_json::to_value(f).unwrap()));
    }
    let (mut exit, n_viol, n_known) = report("C05", items);
    if exit2 && exit == 0 {
        exit = 2;
    }
    let _ = std::fs::remove_dir_all(hx::scratch_root());
    let ev = evidence::Evidence {
        property: "C05".into(),
        tier: tier.into(),
        level: "fault_enumeration".into(),
        coverage: serde_json::json!({
            "evaluations": o.images_checked,
            "distinct_nontrivial": o.images,
            "rule": "for every history: every prefix of its traced file-system mutation log (one cut after every create/write/truncate/fsync/rename/unlink/mkdir) x every persistence outcome of the model (per directory: every subset of its not-yet-fsynced entry operations, in program order; per reachable file: every boundary of its unsynced writes plus the last write torn after 1 byte / before its last byte), under a strict POSIX model and an ext4-like model; images are de-duplicated by content; each distinct image is recovered by the real Config::open in a worker process, read completely, then written/flushed/compacted",
            "samples": o.samples,
            "exhaustive": !o.capped && o.cap_hits == 0,
            "capped": o.capped,
            "histories": o.histories,
            "fs_events": o.events,
            "crash_points": o.cuts,
            "distinct_images": o.images,
            "images_checked": o.images_checked,
            "per_cut_product_cap_hits": o.cap_hits,
            "recovered_to_state_before_op": o.ok_before,
            "recovered_to_state_after_op": o.ok_after,
            "images_checked_per_fs_model": o.per_model,
            "known_findings_matched": n_known,
        }),
        assumptions: vec![
            "the persistence model: unsynced file data may be cut at write boundaries or torn inside the last write; unsynced directory operations may each be lost; rename is atomic".into(),
            "the syscall log of one traced run of the deterministic subject is representative".into(),
        ],
        wall_s: o.wall_s,
        violations: n_viol,
    };
    evidence::write_evidence(&ev);
    eprintln!(
        "[crash C05 {tier}] histories={} events={} cuts={} images={} checked={} before={} after={} cap_hits={} violations={n_viol} known={n_known} capped={} wall={:.1}s",
        o.histories, o.events, o.cuts, o.images, o.images_checked, o.ok_before, o.ok_after, o.cap_hits, o.capped, o.wall_s
    );
    exit
}

fn run_sched(tier: &str) -> i32 {
    let (max_wall, _) = registry::caps(tier);
    let o = sched::run(tier, threads(), max_wall);
    let mut exit2 = false;
    for m in o.machinery.iter().take(10) {
        eprintln!("MACHINERY: {m}");
        exit2 = true;
    }
    let mut items = vec![];
    let mut seen = std::collections::BTreeSet::new();
    // shortest schedule per signature
    let mut found = o.found.clone();
    found.sort_by_key(|f| (f.sig.clone(), f.schedule.len()));
    for f in &found {
        if !seen.insert(f.sig.clone()) {
            continue;
        }
        let r1: Vec<String> = sched::replay(f).into_iter().map(|x| x.0).collect();
        let r2: Vec<String> = sched::replay(f).into_iter().map(|x| x.0).collect();
        if r1 != r2 || !r1.contains(&f.sig) {
            eprintln!("MACHINERY: schedule {:?} did not replay deterministically for {} ({r1:?} / {r2:?})", f.schedule, f.sig);
            exit2 = true;
            continue;
        }
        items.push((f.sig.clone(), format!("{} [schedule {:?}]", f.msg, f.schedule), serde_json::to_value(f).unwrap()));
    }
    let (mut exit, n_viol, n_known) = report("C06", items);
    if exit2 && exit == 0 {
        exit = 2;
    }
    let _ = std::fs::remove_dir_all(hx::scratch_root());
    let ev = evidence::Evidence {
        property: "C06".into(),
        tier: tier.into(),
        level: "model_checking".into(),
        coverage: serde_json::json!({
            "states": o.steps_total,
            "transitions": o.decisions_total,
            "traces_validated_against_impl": o.executions,
            "evaluations": o.executions,
            "distinct_nontrivial": o.outcomes,
            "rule": "every schedule of each scenario's threads (real OS threads on the real tree, one runs at a time) with at most N preemptions, N iterated 0,1,2(,3); scheduling points before every lock acquisition of the crate and between the writer's seqno allocation / insert / publish; enabledness by probing the real locks; distinct = distinct (flushed prefix, reader observations) outcome",
            "samples": o.samples,
            "exhaustive": !o.capped,
            "capped": o.capped,
            "schedules_executed": o.executions,
            "scheduling_decisions": o.decisions_total,
            "scheduled_steps": o.steps_total,
            "preemption_bound_completed_per_scenario": o.bound_completed,
            "scenarios": o.per_scenario,
            "distinct_outcomes": o.outcomes,
            "known_findings_matched": n_known,
        }),
        assumptions: vec![
            "sequentially consistent interleavings at the hooked points only (no weak-memory effects, nothing inside crossbeam-skiplist / quick_cache)".into(),
            "preemption-bounded; the bound completed is reported per scenario".into(),
        ],
        wall_s: o.wall_s,
        violations: n_viol,
    };
    evidence::write_evidence(&ev);
    eprintln!(
        "[sched C06 {tier}] executions={} decisions={} outcomes={} bounds={:?} violations={n_viol} known={n_known} capped={} wall={:.1}s",
        o.executions, o.decisions_total, o.outcomes, o.bound_completed, o.capped, o.wall_s
    );
    exit
}

fn run_cfg(tier: &str) -> i32 {
    let (max_wall, _) = registry::caps(tier);
    let o = cfgmc::run(tier, threads(), max_wall);
    let mut items = vec![];
    let mut seen = std::collections::BTreeSet::new();
    let mut exit2 = false;
    for f in &o.found {
        if !seen.insert(f.sig.clone()) {
            continue;
        }
        let r1: Vec<String> = cfgmc::replay(f).into_iter().map(|x| x.0).collect();
        let r2: Vec<String> = cfgmc::replay(f).into_iter().map(|x| x.0).collect();
        if r1 != r2 || r1.is_empty() {
            eprintln!("MACHINERY: configuration case {} did not replay deterministically ({r1:?} / {r2:?})", f.sig);
            exit2 = true;
            continue;
        }
        items.push((f.sig.clone(), f.msg.clone(), serde_json::to_value(f).unwrap()));
    }
    let (mut exit, n_viol, n_known) = report("C11", items);
    if exit2 && exit == 0 {
        exit = 2;
    }
    let _ = std::fs::remove_dir_all(hx::scratch_root());
    let ev = evidence::Evidence {
        property: "C11".into(),
        tier: tier.into(),
        level: "model_checking".into(),
        coverage: serde_json::json!({
            "states": o.runs,
            "transitions": o.runs * 2,
            "traces_validated_against_impl": o.runs,
            "evaluations": o.runs,
            "distinct_nontrivial": o.runs,
            "rule": "every history of the fixed set x every configuration of the product (quick: every configuration within Hamming distance 2 of the default) - block size {1,64,4096} x restart interval {1,2,16} x hash ratio {0,8} x index/filter partitioning x index/filter pinning x filter {none, 10 bits, fpr 0.01} x expect_point_read_hits x cache {0,16MiB} x descriptor table {none,1,256}; each run is a distinct (history, configuration) pair whose complete answers (get/contains/size_of/scans/len/range/prefix at every snapshot, cold and warm) are compared with the reference model and with the default-configuration run; plus 2 and 3 trees with coinciding table ids sharing one cache and descriptor table",
            "samples": o.samples,
            "exhaustive": !o.capped,
            "capped": o.capped,
            "configurations": o.configs,
            "histories": o.histories,
            "runs": o.runs,
            "sharing_runs": o.sharing_runs,
            "known_findings_matched": n_known,
        }),
        assumptions: vec![
            "compression: none (lz4 is an optional feature the suite is not built with)".into(),
            "bounded: a fixed set of histories; the configuration product is complete in the thorough tier".into(),
        ],
        wall_s: o.wall_s,
        violations: n_viol,
    };
    evidence::write_evidence(&ev);
    eprintln!(
        "[cfgmc C11 {tier}] histories={} configs={} runs={} sharing_runs={} violations={n_viol} known={n_known} capped={} wall={:.1}s",
        o.histories, o.configs, o.runs, o.sharing_runs, o.capped, o.wall_s
    );
    exit
}

fn run_tablemc(tier: &str) -> i32 {
    let (max_wall, _) = registry::caps(tier);
    let o = tablemc::run(tier, threads(), max_wall);
    // confirm each distinct signature by replaying twice
    let mut items = vec![];
    let mut seen = std::collections::BTreeSet::new();
    let mut exit2 = false;
    for c in &o.found {
        if !seen.insert(c.sig.clone()) {
            continue;
        }
        let r1: Vec<String> = tablemc::replay(c).into_iter().map(|x| x.0).collect();
        let r2: Vec<String> = tablemc::replay(c).into_iter().map(|x| x.0).collect();
        if r1 != r2 || r1.is_empty() {
            eprintln!("MACHINERY: tablemc case {} did not replay deterministically ({r1:?} vs {r2:?})", c.sig);
            exit2 = true;
            continue;
        }
        items.push((c.sig.clone(), c.msg.clone(), serde_json::to_value(c).unwrap()));
    }
    let (mut exit, n_viol, n_known) = report("C12", items);
    if exit2 && exit == 0 {
        exit = 2;
    }
    let _ = std::fs::remove_dir_all(hx::scratch_root());
    let ev = evidence::Evidence {
        property: "C12".into(),
        tier: tier.into(),
        level: "model_checking".into(),
        coverage: serde_json::json!({
            "states": o.tables,
            "transitions": o.probes,
            "traces_validated_against_impl": o.recovers,
            "evaluations": o.tables,
            "distinct_nontrivial": o.tables,
            "rule": "every (stream, writer setting) pair of the enumerated stream family x 324 settings is written by the real table::Writer (one distinct table each), recovered under 2 (quick) or 4 (thorough) recover variants and probed: metadata, scan, iter fwd/rev, every bound pair over keys and gaps x next/next_back interleavings, get for every key x seqno",
            "samples": o.samples,
            "exhaustive": !o.capped,
            "capped": o.capped,
            "streams": o.streams,
            "settings": o.settings,
            "tables_written": o.tables,
            "recovers": o.recovers,
            "probes": o.probes,
            "known_findings_matched": n_known,
        }),
        assumptions: vec![
            "bounded: streams of at most 3 (quick: 2, plus a slice of 3) grid entries, 4-5 entry two-key streams (thorough), and a fixed adversarial family".into(),
            "the stream itself is the specification".into(),
        ],
        wall_s: o.wall_s,
        violations: n_viol,
    };
    evidence::write_evidence(&ev);
    eprintln!(
        "[tablemc C12 {tier}] streams={} settings={} tables={} recovers={} probes={} violations={n_viol} capped={} wall={:.1}s",
        o.streams, o.settings, o.tables, o.recovers, o.probes, o.capped, o.wall_s
    );
    exit
}

fn run_replay(path: &str) -> i32 {
    let s = match std::fs::read_to_string(path) {
        Ok(s) => s,
        Err(e) => {
            eprintln!("cannot read {path}: {e}");
            return 2;
        }
    };
    let v: serde_json::Value = serde_json::from_str(&s).expect("replay json");
    match v["engine"].as_str() {
        Some("hx") => {
            let rp: hx::Replay = serde_json::from_value(v).expect("hx replay");
            let Some(sc) = registry::find_scenario(&rp.property, &rp.scenario) else {
                eprintln!("scenario {} not found", rp.scenario);
                return 2;
            };
            let dir = hx::scratch_root().join("replay");
            let (viol, _) = hx::run_history(sc.as_ref(), &dir, &rp.ops, false);
            let _ = std::fs::remove_dir_all(hx::scratch_root());
            println!("history: {}", ops::short_hist(&rp.ops));
            if viol.is_empty() {
                println!("no violation on replay");
                0
            } else {
                for x in &viol {
                    println!("violation sig={} {}", x.sig, x.msg);
                }
                println!("VIOLATION property={} replay={path}", rp.property);
                1
            }
        }
        Some("corrupt") => {
            let c: corrupt::CorruptReplay = serde_json::from_value(v).expect("corrupt replay");
            let r = corrupt::replay(&c);
            let _ = std::fs::remove_dir_all(hx::scratch_root());
            println!("{} of {} at offset {} mask {:#04x}: {r}", c.kind, c.file, c.offset, c.mask);
            if r.starts_with("DIFF") {
                println!("VIOLATION property={} replay={path}", c.property);
                1
            } else if r.starts_with("HARNESS") {
                2
            } else {
                println!("no violation on replay");
                0
            }
        }
        Some("fault") => {
            let c: fsx::FaultReplay = serde_json::from_value(v).expect("fault replay");
            let r = fsx::replay_fault(&c);
            let _ = std::fs::remove_dir_all(hx::scratch_root());
            match r {
                Err(e) => {
                    eprintln!("MACHINERY: {e}");
                    2
                }
                Ok(v) if v.is_empty() => {
                    println!("no violation on replay");
                    0
                }
                Ok(v) => {
                    for x in v {
                        println!("violation {x}");
                    }
                    println!("VIOLATION property={} replay={path}", c.property);
                    1
                }
            }
        }
        Some("crash") => {
            let c: crash::CrashReplay = serde_json::from_value(v).expect("crash replay");
            let r = crash::replay(&c);
            let _ = std::fs::remove_dir_all(hx::scratch_root());
            println!("crash after fs event #{} ({}) under fs model {}: {r}", c.cut, c.event, c.fs_model);
            if r.starts_with("VIOLATION") {
                println!("VIOLATION property={} replay={path}", c.property);
                1
            } else if r.starts_with("HARNESS") {
                2
            } else {
                println!("no violation on replay");
                0
            }
        }
        Some("sched") => {
            let c: sched::SchedReplay = serde_json::from_value(v).expect("sched replay");
            let r = sched::replay(&c);
            let _ = std::fs::remove_dir_all(hx::scratch_root());
            println!("scenario {} schedule {:?}", c.scenario.name, c.schedule);
            if r.is_empty() {
                println!("no violation on replay");
                0
            } else {
                for (sig, msg) in &r {
                    println!("violation sig={sig} {msg}");
                }
                if r.iter().any(|x| x.0 == "MACHINERY") {
                    return 2;
                }
                println!("VIOLATION property={} replay={path}", c.property);
                1
            }
        }
        Some("cfgmc") => {
            let c: cfgmc::CfgReplay = serde_json::from_value(v).expect("cfgmc replay");
            let r = cfgmc::replay(&c);
            let _ = std::fs::remove_dir_all(hx::scratch_root());
            if r.is_empty() {
                println!("no violation on replay");
                0
            } else {
                for (sig, msg) in &r {
                    println!("violation sig={sig} {msg}");
                }
                println!("VIOLATION property={} replay={path}", c.property);
                1
            }
        }
        Some("tablemc") => {
            let c: tablemc::Case = serde_json::from_value(v).expect("tablemc case");
            let r = tablemc::replay(&c);
            let _ = std::fs::remove_dir_all(hx::scratch_root());
            if r.is_empty() {
                println!("no violation on replay");
                0
            } else {
                for (sig, msg) in &r {
                    println!("violation sig={sig} {msg}");
                }
                println!("VIOLATION property={} replay={path}", c.property);
                1
            }
        }
        other => {
            eprintln!("unknown engine {other:?}");
            2
        }
    }
}
