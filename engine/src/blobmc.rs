//! C08 (key-value separation is invisible; pointers always resolve) and
//! C09 (blob garbage statistics exact; only unreferenced blob files dropped).

use crate::driver::{Driver, OpInfo, TreeCfg};
use crate::hx::{Budget, PreState, Scenario};
use crate::ops::Op;
use crate::oracles::{self, v, ReadOpts, Violation};
use crate::scen::{enabled_from, Alphabet};
use lsm_tree::{AbstractTree, SeqNo};
use std::collections::BTreeMap;

#[derive(Clone, Copy, PartialEq, Eq, Debug)]
pub enum Kind {
    C08,
    C09,
}

pub struct Blob {
    pub name: String,
    pub cfg: TreeCfg,
    pub alphabet: Alphabet,
    pub budget: Budget,
    pub seeds: Vec<Vec<Op>>,
    pub kind: Kind,
}

/// per blob file: (live pointer count, live uncompressed bytes, live on-disk bytes)
type Live = BTreeMap<u64, (u64, u64, u64)>;

fn live_pointers(vi: &lsm_tree::verif_hooks::VersionInfo, out: &mut Vec<Violation>) -> Live {
    let mut live: Live = BTreeMap::new();
    for t in vi.levels.iter().flatten().flatten() {
        let items = match oracles::table_items(&t.table) {
            Ok(i) => i,
            Err(e) => {
                out.push(v("blob:table-unreadable", e));
                continue;
            }
        };
        let mut own: Live = BTreeMap::new();
        for it in items.iter().filter(|i| i.vt == 3) {
            match lsm_tree::verif_hooks::decode_indirection(&it.value) {
                None => out.push(v(
                    "blob:pointer-undecodable",
                    format!("table {} holds an indirection for {:?}@{} that does not decode", t.id, it.key, it.seqno),
                )),
                Some(p) => {
                    let e = own.entry(p.blob_file_id).or_insert((0, 0, 0));
                    e.0 += 1;
                    e.1 += u64::from(p.size);
                    e.2 += u64::from(p.on_disk_size);
                }
            }
        }
        // the table's own linked_blob_files section equals its pointer scan
        match t.table.list_blob_file_references() {
            Err(e) => out.push(v("blob:linked-unreadable", format!("table {}: {e:?}", t.id))),
            Ok(refs) => {
                let mut linked: Live = BTreeMap::new();
                for r in refs.unwrap_or_default() {
                    linked.insert(r.blob_file_id, (r.len as u64, r.bytes, r.on_disk_bytes));
                }
                if linked != own {
                    out.push(v(
                        "blob:linked-blob-files",
                        format!("table {} records linked blob files {linked:?} but its pointers are {own:?}", t.id),
                    ));
                }
            }
        }
        for (f, (a, b, c)) in own {
            let e = live.entry(f).or_insert((0, 0, 0));
            e.0 += a;
            e.1 += b;
            e.2 += c;
        }
    }
    live
}

pub fn check_c09(d: &Driver, pre: &PreState, op: Option<&Op>, info: &OpInfo, out: &mut Vec<Violation>) {
    let hist = lsm_tree::verif_hooks::history(d.inner());
    let cur = &hist.last().unwrap().version;
    let live = live_pointers(cur, out);
    let files: BTreeMap<u64, &lsm_tree::verif_hooks::BlobFileInfo> = cur.blob_files.iter().map(|b| (b.id, b)).collect();
    let gc: BTreeMap<u64, &lsm_tree::verif_hooks::GcEntry> = cur.gc_stats.iter().map(|g| (g.id, g)).collect();

    // safety: everything pointed to is part of the version and on disk
    for f in live.keys() {
        match files.get(f) {
            None => out.push(v(
                "blob:live-file-dropped",
                format!("v{}: tables point into blob file {f} but the version does not name it", cur.id),
            )),
            Some(b) => {
                if !b.path.exists() {
                    out.push(v("blob:live-file-missing", format!("blob file {f} is pointed to but not on disk")));
                }
            }
        }
    }
    // exact garbage statistics
    let mut stale_sum = 0u64;
    for (id, b) in &files {
        let (ll, lb, ld) = live.get(id).copied().unwrap_or((0, 0, 0));
        let want = (
            b.item_count.saturating_sub(ll),
            b.total_uncompressed_bytes.saturating_sub(lb),
            b.total_compressed_bytes.saturating_sub(ld),
        );
        if ll > b.item_count || lb > b.total_uncompressed_bytes {
            out.push(v(
                "blob:more-pointers-than-blobs",
                format!("blob file {id} has {} blobs / {} bytes but {ll} pointers / {lb} bytes point into it", b.item_count, b.total_uncompressed_bytes),
            ));
        }
        let got = gc.get(id).map_or((0, 0, 0), |g| (g.len as u64, g.bytes, g.on_disk_bytes));
        stale_sum += want.2;
        if got != want {
            out.push(v(
                "blob:gc-stats",
                format!(
                    "v{}: gc stats of blob file {id} are (len {}, bytes {}, on_disk {}) but {} of {} blobs are unreferenced: expected (len {}, bytes {}, on_disk {})",
                    cur.id, got.0, got.1, got.2, want.0, b.item_count, want.0, want.1, want.2
                ),
            ));
        }
    }
    // entries for files that left the version: reported once, when they appear (the crate keeps them
    // until the next merge prunes the stats - pinned by tests/blob_nuke_gc_stats.rs, see DESIGN 8)
    let mut orphan_sum = 0u64;
    for (id, g) in &gc {
        if !files.contains_key(id) {
            orphan_sum += g.on_disk_bytes;
            if !pre.gc_stats.iter().any(|(pid, ..)| pid == id) || pre.blob_files.contains(id) {
                out.push(v(
                    format!("blob:gc-stats-orphan@{}", op.map_or("start", |o| o.name())),
                    format!(
                        "v{}: after {} the gc stats still hold an entry for blob file {id}, which the version no longer names (stale_blob_bytes() counts its {} bytes)",
                        cur.id,
                        op.map_or("start".to_string(), |o| o.short()),
                        g.on_disk_bytes
                    ),
                ));
            }
        }
    }
    let sb = d.t().stale_blob_bytes();
    if sb != stale_sum + orphan_sum {
        out.push(v(
            "blob:stale-bytes",
            format!("stale_blob_bytes() = {sb} but the unreferenced blobs occupy {stale_sum} bytes (+ {orphan_sum} recorded for files already dropped)"),
        ));
    }
    // death rule: a file nothing pointed into before a merge/drop-type change is gone after it
    if let Some(o) = op {
        // the crate's rule (DESIGN 7 C09): a merge commit drops the files that were dead before it;
        // a drop-type change (drop_range, FIFO) prunes dead files only if it removed at least one table
        let merge_or_drop = matches!(
            o,
            Op::Leveled { .. } | Op::Major { .. } | Op::PullDown { .. } | Op::DropRange { .. } | Op::Fifo { .. }
        );
        let tables_now = d.t().table_count() as u64;
        let merged = info.version_changed
            && if matches!(o, Op::DropRange { .. } | Op::Fifo { .. }) {
                pre.any.get("table_count").and_then(|x| x.as_u64()).is_some_and(|n| tables_now < n)
            } else {
                pre.any.get("table_ctr").and_then(|x| x.as_u64()) != Some(d.inner().table_id_counter.get())
            };
        if merge_or_drop && merged {
            for f in &pre.dead_blob_files {
                if files.contains_key(f) {
                    out.push(v(
                        "blob:dead-file-kept",
                        format!("blob file {f} had no pointer into it before {} but is still part of v{}", o.short(), cur.id),
                    ));
                }
            }
        }
        // entries of files that already left the version are not statistics of the version
        let pre_live: Vec<_> = pre.gc_stats.iter().filter(|(id, ..)| pre.blob_files.contains(id)).cloned().collect();
        let now_live: Vec<_> = cur.gc_stats.iter().filter(|g| files.contains_key(&g.id)).map(|g| (g.id, g.len, g.bytes, g.on_disk_bytes)).collect();
        if matches!(o, Op::Reopen) && pre_live != now_live {
            out.push(v(
                "blob:gc-stats-reopen",
                format!("gc stats changed across reopen: {:?} -> {:?}", pre.gc_stats, cur.gc_stats.iter().map(|g| (g.id, g.len, g.bytes, g.on_disk_bytes)).collect::<Vec<_>>()),
            ));
        }
    }
    // files gone from every version in the history are gone from disk
    let mut named: std::collections::BTreeSet<String> = Default::default();
    for sv in &hist {
        for b in &sv.version.blob_files {
            named.insert(b.id.to_string());
        }
    }
    // (only checked when nothing holds older versions: see C20 for the general rule)
    if hist.len() == 1 && d.snaps.is_empty() && matches!(op, Some(Op::Reopen)) {
        for f in oracles::list_dir(&d.dir.join("blobs")) {
            if !named.contains(&f) {
                out.push(v("blob:file-leaked", format!("blobs/{f} is on disk but no version names it")));
            }
        }
    }
}

pub fn check_pointer_integrity(d: &Driver, out: &mut Vec<Violation>) {
    let hist = lsm_tree::verif_hooks::history(d.inner());
    let mut seen_versions = std::collections::BTreeSet::new();
    for sv in &hist {
        if !seen_versions.insert(sv.version.id) {
            continue;
        }
        for t in sv.version.levels.iter().flatten().flatten() {
            let items = match oracles::table_items(&t.table) {
                Ok(i) => i,
                Err(e) => {
                    out.push(v("ptr:table-unreadable", e));
                    continue;
                }
            };
            for it in items.iter().filter(|i| i.vt == 3) {
                let want = d
                    .model
                    .writes
                    .iter()
                    .find(|w| w.key == it.key && w.seqno == it.seqno && w.kind == crate::model::Kind::Put)
                    .and_then(|w| w.value_at(SeqNo::MAX).or(Some(w.value.clone())));
                match lsm_tree::verif_hooks::resolve_indirection(d.inner(), &sv.raw_version, &it.key, &it.value) {
                    Err(e) => out.push(v(
                        "ptr:resolve-err",
                        format!("v{}: pointer of {:?}@{} in table {} fails to resolve: {e:?}", sv.version.id, it.key, it.seqno, t.id),
                    )),
                    Ok(None) => out.push(v(
                        "ptr:dangling",
                        format!("v{}: pointer of {:?}@{} in table {} resolves to nothing", sv.version.id, it.key, it.seqno, t.id),
                    )),
                    Ok(Some(bytes)) => {
                        // replaced values (compaction filter) keep the seqno: accept the original or any replacement
                        let ok = match &want {
                            Some(w) => *w == bytes
                                || d.model.writes.iter().any(|mw| {
                                    mw.key == it.key
                                        && mw.seqno == it.seqno
                                        && (mw.value == bytes
                                            || mw.filtered.iter().any(|(_, e)| matches!(e, crate::model::FilterEffect::Replace(r) if *r == bytes)))
                                }),
                            None => false,
                        };
                        if !ok {
                            out.push(v(
                                "ptr:wrong-bytes",
                                format!(
                                    "v{}: pointer of {:?}@{} in table {} resolves to {:?} but the write was {:?}",
                                    sv.version.id,
                                    it.key,
                                    it.seqno,
                                    t.id,
                                    String::from_utf8_lossy(&bytes),
                                    want.as_ref().map(|x| String::from_utf8_lossy(x).into_owned())
                                ),
                            ));
                        }
                    }
                }
            }
        }
    }
}

/// Runs the same history on a standard tree and compares every answer.
pub fn check_twin(d: &Driver, out: &mut Vec<Violation>) {
    let twin_dir = d.dir.with_extension("twin");
    crate::hx::fresh_dir(&twin_dir);
    let mut cfg = d.cfg.clone();
    cfg.blob = None;
    let mut tw = match Driver::new(&twin_dir, cfg) {
        Ok(x) => x,
        Err(e) => {
            out.push(v("twin:open-err", e));
            return;
        }
    };
    for op in &d.history {
        let info = tw.apply(op);
        if let Some(e) = info.err {
            out.push(v("twin:op-err", format!("standard-tree twin failed at {}: {e}", op.short())));
            return;
        }
    }
    if tw.snaps.len() != d.snaps.len() {
        out.push(v("twin:harness", "snapshot lists differ in length".to_string()));
        return;
    }
    let mut pairs: Vec<(SeqNo, SeqNo)> = vec![(SeqNo::MAX, SeqNo::MAX), (d.visible.get(), tw.visible.get())];
    pairs.extend(d.snaps.iter().copied().zip(tw.snaps.iter().copied()));
    let mut keys = d.cfg.keys.clone();
    keys.push(oracles::absent_key());
    for (sa, sb) in pairs {
        for k in &keys {
            let a = oracles::get(d.t(), k, sa);
            let b = oracles::get(tw.t(), k, sb);
            if a != b {
                out.push(v("twin:get", format!("get({k:?}) blob tree {a:?} vs standard tree {b:?} (snapshots {sa}/{sb})")));
            }
            let a = d.t().size_of(k, sa).map_err(|e| format!("{e:?}"));
            let b = tw.t().size_of(k, sb).map_err(|e| format!("{e:?}"));
            if a != b {
                out.push(v("twin:size_of", format!("size_of({k:?}) blob tree {a:?} vs standard tree {b:?}")));
            }
            let a = d.t().contains_key(k, sa).map_err(|e| format!("{e:?}"));
            let b = tw.t().contains_key(k, sb).map_err(|e| format!("{e:?}"));
            if a != b {
                out.push(v("twin:contains_key", format!("contains_key({k:?}) blob tree {a:?} vs standard tree {b:?}")));
            }
        }
        let a = oracles::scan_fwd(d.t(), sa);
        let b = oracles::scan_fwd(tw.t(), sb);
        if a != b {
            out.push(v("twin:scan", format!("scan blob tree {a:?} vs standard tree {b:?} (snapshots {sa}/{sb})")));
        }
        let a = oracles::collect_fwd(d.t().prefix(d.cfg.keys[0][..1].to_vec(), sa, None));
        let b = oracles::collect_fwd(tw.t().prefix(d.cfg.keys[0][..1].to_vec(), sb, None));
        if a != b {
            out.push(v("twin:prefix", format!("prefix scan blob tree {a:?} vs standard tree {b:?} (snapshots {sa}/{sb})")));
        }
        let a = oracles::scan_rev(d.t(), sa);
        let b = oracles::scan_rev(tw.t(), sb);
        if a != b {
            out.push(v("twin:scan-rev", format!("reverse scan blob tree {a:?} vs standard tree {b:?}")));
        }
        let a = d.t().len(sa, None).map_err(|e| format!("{e:?}"));
        let b = tw.t().len(sb, None).map_err(|e| format!("{e:?}"));
        if a != b {
            out.push(v("twin:len", format!("len blob tree {a:?} vs standard tree {b:?}")));
        }
        // sizes reported by scan guards
        use lsm_tree::Guard;
        let a: Vec<_> = d.t().iter(sa, None).map(|g| g.size().map_err(|e| format!("{e:?}"))).collect();
        let b: Vec<_> = tw.t().iter(sb, None).map(|g| g.size().map_err(|e| format!("{e:?}"))).collect();
        if a != b {
            out.push(v("twin:scan-size", format!("scan guard sizes blob tree {a:?} vs standard tree {b:?}")));
        }
        // conditional guards (value resolved only for accepted keys), keys-only guards, both directions
        let first = d.cfg.keys[0].clone();
        let a: Vec<_> = d.t().iter(sa, None).rev().map(|g| g.into_inner_if(|k| **k == *first).map(|(k, x)| (k.to_vec(), x.map(|x| x.to_vec()))).map_err(|e| format!("{e:?}"))).collect();
        let b: Vec<_> = tw.t().iter(sb, None).rev().map(|g| g.into_inner_if(|k| **k == *first).map(|(k, x)| (k.to_vec(), x.map(|x| x.to_vec()))).map_err(|e| format!("{e:?}"))).collect();
        if a != b {
            out.push(v("twin:scan-inner-if", format!("reverse scan with into_inner_if(first key) blob tree {a:?} vs standard tree {b:?}")));
        }
        let a: Vec<_> = d.t().iter(sa, None).map(|g| g.key().map(|k| k.to_vec()).map_err(|e| format!("{e:?}"))).collect();
        let b: Vec<_> = tw.t().iter(sb, None).map(|g| g.key().map(|k| k.to_vec()).map_err(|e| format!("{e:?}"))).collect();
        if a != b {
            out.push(v("twin:scan-keys", format!("scan guard keys blob tree {a:?} vs standard tree {b:?}")));
        }
    }
    drop(tw);
    let _ = std::fs::remove_dir_all(&twin_dir);
}

impl Scenario for Blob {
    fn name(&self) -> String {
        self.name.clone()
    }
    fn cfg(&self) -> TreeCfg {
        self.cfg.clone()
    }
    fn seeds(&self) -> Vec<Vec<Op>> {
        self.seeds.clone()
    }
    fn budget(&self) -> Budget {
        self.budget
    }
    fn enabled(&self, d: &Driver, hist: &[Op]) -> Vec<Op> {
        enabled_from(&self.alphabet, d, hist)
    }
    fn pre(&self, d: &Driver, _op: &Op) -> PreState {
        let mut p = PreState::default();
        if self.kind == Kind::C09 {
            let hist = lsm_tree::verif_hooks::history(d.inner());
            let cur = &hist.last().unwrap().version;
            let mut sink = vec![];
            let live = live_pointers(cur, &mut sink);
            p.dead_blob_files = cur
                .blob_files
                .iter()
                .filter(|b| !live.contains_key(&b.id))
                .map(|b| b.id)
                .collect();
            p.gc_stats = cur.gc_stats.iter().map(|g| (g.id, g.len, g.bytes, g.on_disk_bytes)).collect();
            p.blob_files = cur.blob_files.iter().map(|b| b.id).collect();
            p.any.insert("table_ctr".into(), serde_json::json!(d.inner().table_id_counter.get()));
            p.any.insert("table_count".into(), serde_json::json!(d.t().table_count()));
        }
        p
    }
    fn check(&self, d: &mut Driver, pre: &PreState, op: Option<&Op>, info: &OpInfo, out: &mut Vec<Violation>) {
        match self.kind {
            Kind::C08 => {
                oracles::check_reads(
                    d,
                    ReadOpts { point: true, scans: true, at_latest: true, at_snaps: true, internal: false },
                    out,
                );
                check_pointer_integrity(d, out);
                check_twin(d, out);
            }
            Kind::C09 => {
                for a in &info.filter_anomalies {
                    out.push(v("filter-anomaly", a.clone()));
                }
                check_c09(d, pre, op, info, out);
            }
        }
    }
    fn outcome(&self, d: &Driver) -> u64 {
        use std::hash::{Hash, Hasher};
        let mut h = std::collections::hash_map::DefaultHasher::new();
        let hist = lsm_tree::verif_hooks::history(d.inner());
        let cur = &hist.last().unwrap().version;
        for b in &cur.blob_files {
            (b.item_count, b.total_uncompressed_bytes).hash(&mut h);
        }
        for g in &cur.gc_stats {
            (g.len, g.bytes).hash(&mut h);
        }
        cur.levels.iter().map(|l| l.len()).collect::<Vec<_>>().hash(&mut h);
        h.finish()
    }
}
