//! C03: for every distinct physical layout reached by the history exploration, every pair of
//! range bounds x every next/next_back interleaving, prefixes, first/last/len/is_empty, and
//! overlay memtables, against the reference model.

use crate::driver::{Driver, OpInfo, TreeCfg};
use crate::hx::{Budget, PreState, Scenario};
use crate::model::Expect;
use crate::ops::Op;
use crate::oracles::{self, v, Violation};
use crate::scen::{enabled_from, Alphabet};
use lsm_tree::{AbstractTree, Guard, Memtable, SeqNo};
use std::collections::{BTreeMap, BTreeSet, HashSet};
use std::hash::{Hash, Hasher};
use std::ops::Bound;
use std::sync::atomic::{AtomicU64, Ordering};
use std::sync::{Arc, Mutex};

pub fn c03_keys() -> Vec<Vec<u8>> {
    vec![
        vec![0x61],
        vec![0x61, 0xFF],
        vec![0x61, 0xFF, 0xFF],
        vec![0x62],
        vec![0xFF],
        vec![0xFF, 0xFF],
    ]
}

/// Hash of the layout with sequence numbers replaced by their rank (the code only compares them).
pub fn layout_hash(d: &Driver) -> Result<u64, String> {
    let hist = lsm_tree::verif_hooks::history(d.inner());
    let mut seqs: BTreeSet<u64> = BTreeSet::new();
    let mut dump: Vec<(u8, u64, usize, usize, usize, Vec<oracles::Item>)> = vec![];
    for (hi, sv) in hist.iter().enumerate() {
        seqs.insert(sv.seqno);
        for (li, l) in sv.version.levels.iter().enumerate() {
            for (ri, r) in l.iter().enumerate() {
                for (ti, t) in r.iter().enumerate() {
                    let items = oracles::table_items(&t.table)?;
                    for it in &items {
                        seqs.insert(it.seqno);
                    }
                    dump.push((0, hi as u64, li, ri, ti, items));
                }
            }
        }
        let items = oracles::memtable_items(&sv.active);
        for it in &items {
            seqs.insert(it.seqno);
        }
        dump.push((1, hi as u64, 0, 0, 0, items));
        for (mi, m) in sv.sealed.iter().enumerate() {
            let items = oracles::memtable_items(m);
            for it in &items {
                seqs.insert(it.seqno);
            }
            dump.push((2, hi as u64, mi, 0, 0, items));
        }
    }
    for s in &d.snaps {
        seqs.insert(*s);
    }
    let rank: BTreeMap<u64, usize> = seqs.iter().enumerate().map(|(i, s)| (*s, i)).collect();
    let mut h = std::collections::hash_map::DefaultHasher::new();
    for sv in &hist {
        rank[&sv.seqno].hash(&mut h);
    }
    for (kind, hi, a, b, c, items) in &dump {
        (kind, hi, a, b, c).hash(&mut h);
        for it in items {
            (&it.key, rank[&it.seqno], it.vt).hash(&mut h);
        }
        0xEEu8.hash(&mut h);
    }
    for s in &d.snaps {
        rank[s].hash(&mut h);
    }
    Ok(h.finish())
}

fn probe_points(keys: &[Vec<u8>]) -> Vec<Vec<u8>> {
    let mut pts: Vec<Vec<u8>> = keys.to_vec();
    pts.push(vec![]); // below everything (also: the empty key)
    pts.push(vec![0x61, 0x00]); // gap between 61 and 61 FF
    pts.push(vec![0x61, 0xFF, 0x00]); // gap between 61 FF and 61 FF FF
    pts.push(vec![0x70]); // gap between 62 and FF
    pts.push(vec![0xFF, 0xFF, 0xFF]); // above everything
    pts.sort();
    pts.dedup();
    pts
}

fn in_bounds(k: &[u8], lo: &Bound<Vec<u8>>, hi: &Bound<Vec<u8>>) -> bool {
    (match lo {
        Bound::Unbounded => true,
        Bound::Included(x) => k >= x.as_slice(),
        Bound::Excluded(x) => k > x.as_slice(),
    }) && (match hi {
        Bound::Unbounded => true,
        Bound::Included(x) => k <= x.as_slice(),
        Bound::Excluded(x) => k < x.as_slice(),
    })
}

type Kv = (Vec<u8>, Vec<u8>);

fn drive(
    it: &mut dyn DoubleEndedIterator<Item = lsm_tree::IterGuardImpl>,
    exp: &[Kv],
    pat: u32,
    what: &str,
) -> Result<(), Violation> {
    let n = exp.len();
    let (mut f, mut b) = (0usize, n);
    for step in 0..=n {
        let back = pat & (1 << step) != 0;
        let got = if back { it.next_back() } else { it.next() };
        let expect = if f < b {
            if back {
                b -= 1;
                Some(&exp[b])
            } else {
                f += 1;
                Some(&exp[f - 1])
            }
        } else {
            None
        };
        let got: Option<Kv> = match got {
            None => None,
            Some(g) => match g.into_inner() {
                Ok((k, val)) => Some((k.to_vec(), val.to_vec())),
                Err(e) => {
                    return Err(v(
                        "scan-err",
                        format!("{what}: step {step} returned Err {e:?}"),
                    ))
                }
            },
        };
        if got.as_ref() != expect {
            return Err(v(
                if back { "scan-mismatch-back" } else { "scan-mismatch-front" },
                format!(
                    "{what}: pattern {pat:b} step {step} ({}) returned {:?}, model expects {:?} (full expected result {:?})",
                    if back { "next_back" } else { "next" },
                    got,
                    expect,
                    exp
                ),
            ));
        }
    }
    Ok(())
}

fn patterns(n: usize, full: bool) -> Vec<u32> {
    if n + 1 >= 31 {
        return vec![0];
    }
    let all_b = (1u32 << (n + 1)) - 1;
    if full || n <= 3 {
        (0..=all_b).collect()
    } else {
        let mut p = vec![0, all_b, 0xAAAA_AAAA & all_b, 0x5555_5555 & all_b, 0xCCCC_CCCC & all_b, 0x3333_3333 & all_b];
        p.sort_unstable();
        p.dedup();
        p
    }
}

pub struct ScanStats {
    pub ranges: u64,
    pub iterations: u64,
}

/// The heavy oracle. `full` = every interleaving, otherwise canonical patterns for long results.
pub fn check_scans(d: &Driver, full: bool, out: &mut Vec<Violation>, stats: &mut ScanStats) {
    let t = d.t();
    let keys = d.cfg.keys.clone();
    let pts = probe_points(&keys);
    let mut bounds: Vec<Bound<Vec<u8>>> = vec![Bound::Unbounded];
    for p in &pts {
        bounds.push(Bound::Included(p.clone()));
        bounds.push(Bound::Excluded(p.clone()));
    }
    let mut snaps: Vec<SeqNo> = d.snaps.clone();
    snaps.push(SeqNo::MAX);
    snaps.push(d.visible.get());
    snaps.dedup();

    for &s in &snaps {
        let Some(model) = d.model.scan_exact(s) else {
            continue;
        };
        // ranges
        for lo in &bounds {
            for hi in &bounds {
                let exp: Vec<Kv> = model
                    .iter()
                    .filter(|(k, _)| in_bounds(k, lo, hi))
                    .cloned()
                    .collect();
                stats.ranges += 1;
                for pat in patterns(exp.len(), full) {
                    let mut it = t.range::<Vec<u8>, _>((lo.clone(), hi.clone()), s, None);
                    stats.iterations += 1;
                    if let Err(e) = drive(&mut *it, &exp, pat, &format!("range({lo:?},{hi:?}) at {s}")) {
                        out.push(e);
                        return;
                    }
                }
            }
        }
        // prefixes
        let mut prefixes: BTreeSet<Vec<u8>> = BTreeSet::new();
        prefixes.insert(vec![]);
        prefixes.insert(vec![0xFF]);
        prefixes.insert(vec![0x61, 0xFF, 0xFF, 0xFF]);
        prefixes.insert(vec![0x60]);
        for k in &keys {
            for i in 1..=k.len() {
                prefixes.insert(k[..i].to_vec());
            }
        }
        for p in &prefixes {
            let exp: Vec<Kv> = model.iter().filter(|(k, _)| k.starts_with(p)).cloned().collect();
            stats.ranges += 1;
            for pat in patterns(exp.len(), full) {
                let mut it = t.prefix(p.clone(), s, None);
                stats.iterations += 1;
                if let Err(mut e) = drive(&mut *it, &exp, pat, &format!("prefix({p:?}) at {s}")) {
                    e.sig = format!("prefix-{}", e.sig);
                    out.push(e);
                    return;
                }
            }
        }
        // first / last / len / is_empty
        let first = t.first_key_value(s, None).map(|g| g.into_inner().map(|(k, x)| (k.to_vec(), x.to_vec())));
        match first {
            Some(Err(e)) => out.push(v("first-err", format!("first_key_value({s}) Err {e:?}"))),
            Some(Ok(kv)) => {
                if model.first() != Some(&kv) {
                    out.push(v("first-mismatch", format!("first_key_value({s}) = {kv:?}, model {:?}", model.first())));
                }
            }
            None => {
                if !model.is_empty() {
                    out.push(v("first-mismatch", format!("first_key_value({s}) = None, model {:?}", model.first())));
                }
            }
        }
        let last = t.last_key_value(s, None).map(|g| g.into_inner().map(|(k, x)| (k.to_vec(), x.to_vec())));
        match last {
            Some(Err(e)) => out.push(v("last-err", format!("last_key_value({s}) Err {e:?}"))),
            Some(Ok(kv)) => {
                if model.last() != Some(&kv) {
                    out.push(v("last-mismatch", format!("last_key_value({s}) = {kv:?}, model {:?}", model.last())));
                }
            }
            None => {
                if !model.is_empty() {
                    out.push(v("last-mismatch", format!("last_key_value({s}) = None, model {:?}", model.last())));
                }
            }
        }
        match t.len(s, None) {
            Ok(n) if n == model.len() => {}
            Ok(n) => out.push(v("len-mismatch", format!("len({s}) = {n}, model {}", model.len()))),
            Err(e) => out.push(v("len-err", format!("len({s}) Err {e:?}"))),
        }
        match t.is_empty(s, None) {
            Ok(b) if b == model.is_empty() => {}
            Ok(b) => out.push(v("isempty-mismatch", format!("is_empty({s}) = {b}, model has {} items", model.len()))),
            Err(e) => out.push(v("isempty-err", format!("is_empty({s}) Err {e:?}"))),
        }
        // key-only and size-only guards agree with the values
        {
            let ks: Result<Vec<Vec<u8>>, _> = t.iter(s, None).map(|g| g.key().map(|k| k.to_vec())).collect();
            match ks {
                Ok(ks) => {
                    let want: Vec<Vec<u8>> = model.iter().map(|(k, _)| k.clone()).collect();
                    if ks != want {
                        out.push(v("keys-mismatch", format!("iter({s}).key() = {ks:?}, model {want:?}")));
                    }
                }
                Err(e) => out.push(v("keys-err", format!("iter({s}).key() Err {e:?}"))),
            }
            let sz: Result<Vec<u32>, _> = t.iter(s, None).map(|g| g.size()).collect();
            match sz {
                Ok(sz) => {
                    let want: Vec<u32> = model.iter().map(|(_, x)| x.len() as u32).collect();
                    if sz != want {
                        out.push(v("sizes-mismatch", format!("iter({s}).size() = {sz:?}, model {want:?}")));
                    }
                }
                Err(e) => out.push(v("sizes-err", format!("iter({s}).size() Err {e:?}"))),
            }
            // conditional guards: value only for keys the predicate accepts (every second key)
            let want: Vec<(Vec<u8>, Option<Vec<u8>>)> = model.iter().enumerate().map(|(i, (k, x))| (k.clone(), if i % 2 == 0 { Some(x.clone()) } else { None })).collect();
            let accept: std::collections::BTreeSet<Vec<u8>> = want.iter().filter(|(_, x)| x.is_some()).map(|(k, _)| k.clone()).collect();
            let got: Result<Vec<(Vec<u8>, Option<Vec<u8>>)>, _> = t
                .iter(s, None)
                .map(|g| g.into_inner_if(|k| accept.contains(&k.to_vec())).map(|(k, x)| (k.to_vec(), x.map(|x| x.to_vec()))))
                .collect();
            match got {
                Ok(got) => {
                    if got != want {
                        out.push(v("inner-if-mismatch", format!("iter({s}).into_inner_if(every second key) = {got:?}, model {want:?}")));
                    }
                }
                Err(e) => out.push(v("inner-if-err", format!("iter({s}).into_inner_if Err {e:?}"))),
            }
        }
        if !out.is_empty() {
            return;
        }
    }

    // overlay memtables on the first and the fourth key: each in {absent, value, tombstone}; seqnos with
    // the MSB set. Tree snapshot s and overlay watermark w vary independently: (latest, MAX),
    // (latest, a watermark that hides the second overlay entry), (every held snapshot, MAX) - the last
    // is how a transaction layer reads its own write set over an older snapshot.
    let base: u64 = 0x8000_0000_0000_0000;
    let mut combos: Vec<(SeqNo, SeqNo)> = vec![(SeqNo::MAX, SeqNo::MAX), (SeqNo::MAX, base + 1)];
    for &sn in &d.snaps {
        combos.push((sn, SeqNo::MAX));
        combos.push((sn, base + 1));
    }
    combos.dedup();
    for (s, w) in combos {
        let Some(model) = d.model.scan_exact(s) else { continue };
        for a in 0..3u8 {
            for b in 0..3u8 {
                if a == 0 && b == 0 {
                    continue;
                }
                let mt = Memtable::new(u64::MAX - 1);
                let mut overlay: BTreeMap<Vec<u8>, Option<Vec<u8>>> = BTreeMap::new();
                for (ki, mode) in [(0usize, a), (3usize.min(keys.len() - 1), b)] {
                    let key = keys[ki].clone();
                    let visible = base + (ki as u64) < w;
                    match mode {
                        1 => {
                            let val = format!("ov{ki}").into_bytes();
                            mt.insert(lsm_tree::InternalValue::from_components(
                                key.clone(),
                                val.clone(),
                                base + ki as u64,
                                lsm_tree::ValueType::Value,
                            ));
                            if visible {
                                overlay.insert(key, Some(val));
                            }
                        }
                        2 => {
                            mt.insert(lsm_tree::InternalValue::new_tombstone(key.clone(), base + ki as u64));
                            if visible {
                                overlay.insert(key, None);
                            }
                        }
                        _ => {}
                    }
                }
                let mt = Arc::new(mt);
                let mut exp_map: BTreeMap<Vec<u8>, Vec<u8>> = model.iter().cloned().collect();
                for (k, val) in &overlay {
                    match val {
                        Some(x) => {
                            exp_map.insert(k.clone(), x.clone());
                        }
                        None => {
                            exp_map.remove(k);
                        }
                    }
                }
                let exp_all: Vec<Kv> = exp_map.into_iter().collect();
                for (lo, hi) in [
                    (Bound::Unbounded, Bound::Unbounded),
                    (Bound::Included(keys[0].clone()), Bound::Excluded(keys[keys.len() - 1].clone())),
                    (Bound::Excluded(keys[0].clone()), Bound::Unbounded),
                ] {
                    let exp: Vec<Kv> = exp_all.iter().filter(|(k, _)| in_bounds(k, &lo, &hi)).cloned().collect();
                    stats.ranges += 1;
                    for pat in patterns(exp.len(), false) {
                        let mut it = t.range::<Vec<u8>, _>((lo.clone(), hi.clone()), s, Some((mt.clone(), w)));
                        stats.iterations += 1;
                        if let Err(mut e) = drive(&mut *it, &exp, pat, &format!("range({lo:?},{hi:?}) at {s} with overlay (modes {a},{b}; watermark {w}) {overlay:?}")) {
                            e.sig = format!("overlay-{}", e.sig);
                            out.push(e);
                            return;
                        }
                    }
                }
                match t.len(s, Some((mt.clone(), w))) {
                    Ok(n) if n == exp_all.len() => {}
                    Ok(n) => {
                        out.push(v("overlay-len-mismatch", format!("len at {s} with overlay {overlay:?} (watermark {w}) = {n}, expected {}", exp_all.len())));
                        return;
                    }
                    Err(e) => {
                        out.push(v("overlay-len-err", format!("{e:?}")));
                        return;
                    }
                }
                let first = t.first_key_value(s, Some((mt.clone(), w))).map(|g| g.into_inner().map(|(k, x)| (k.to_vec(), x.to_vec())));
                let got_first = match first {
                    Some(Ok(kv)) => Some(kv),
                    Some(Err(e)) => {
                        out.push(v("overlay-first-err", format!("{e:?}")));
                        return;
                    }
                    None => None,
                };
                if got_first.as_ref() != exp_all.first() {
                    out.push(v("overlay-first-mismatch", format!("first_key_value at {s} with overlay {overlay:?} (watermark {w}) = {got_first:?}, expected {:?}", exp_all.first())));
                    return;
                }
                let last = t.last_key_value(s, Some((mt.clone(), w))).map(|g| g.into_inner().map(|(k, x)| (k.to_vec(), x.to_vec())));
                let got_last = match last {
                    Some(Ok(kv)) => Some(kv),
                    Some(Err(e)) => {
                        out.push(v("overlay-last-err", format!("{e:?}")));
                        return;
                    }
                    None => None,
                };
                if got_last.as_ref() != exp_all.last() {
                    out.push(v("overlay-last-mismatch", format!("last_key_value at {s} with overlay {overlay:?} (watermark {w}) = {got_last:?}, expected {:?}", exp_all.last())));
                    return;
                }
            }
        }
    }
    let _ = Expect::Exact(None);
}

pub struct C03 {
    pub name: String,
    pub cfg: TreeCfg,
    pub alphabet: Alphabet,
    pub budget: Budget,
    pub seeds: Vec<Vec<Op>>,
    pub full: bool,
    pub seen: Mutex<HashSet<u64>>,
    pub layouts: AtomicU64,
    pub ranges: AtomicU64,
    pub iterations: AtomicU64,
}

impl C03 {
    pub fn new(name: &str, cfg: TreeCfg, alphabet: Alphabet, budget: Budget, seeds: Vec<Vec<Op>>, full: bool) -> Self {
        Self {
            name: name.into(),
            cfg,
            alphabet,
            budget,
            seeds,
            full,
            seen: Mutex::new(HashSet::new()),
            layouts: AtomicU64::new(0),
            ranges: AtomicU64::new(0),
            iterations: AtomicU64::new(0),
        }
    }
}

impl Scenario for C03 {
    fn name(&self) -> String {
        self.name.clone()
    }
    fn cfg(&self) -> TreeCfg {
        self.cfg.clone()
    }
    fn seeds(&self) -> Vec<Vec<Op>> {
        self.seeds.clone()
    }
    fn budget(&self) -> Budget {
        self.budget
    }
    fn enabled(&self, d: &Driver, hist: &[Op]) -> Vec<Op> {
        enabled_from(&self.alphabet, d, hist)
    }
    fn check(&self, d: &mut Driver, _pre: &PreState, _op: Option<&Op>, _info: &OpInfo, out: &mut Vec<Violation>) {
        let h = match layout_hash(d) {
            Ok(h) => h,
            Err(e) => {
                out.push(v("layout-unreadable", e));
                return;
            }
        };
        {
            let mut seen = self.seen.lock().unwrap();
            if !seen.insert(h) {
                return;
            }
        }
        self.layouts.fetch_add(1, Ordering::Relaxed);
        let mut st = ScanStats { ranges: 0, iterations: 0 };
        check_scans(d, self.full, out, &mut st);
        self.ranges.fetch_add(st.ranges, Ordering::Relaxed);
        self.iterations.fetch_add(st.iterations, Ordering::Relaxed);
        if !out.is_empty() {
            // let a replay of the same history evaluate the oracle again
            self.seen.lock().unwrap().remove(&h);
        }
    }
    fn extra_evidence(&self) -> serde_json::Value {
        serde_json::json!({
            "distinct_layouts_scanned": self.layouts.load(Ordering::Relaxed),
            "range_prefix_cases": self.ranges.load(Ordering::Relaxed),
            "iterator_runs": self.iterations.load(Ordering::Relaxed),
        })
    }
    fn outcome(&self, d: &Driver) -> u64 {
        layout_hash(d).unwrap_or(0)
    }
}
