//! Subject process for the file-system engines (`crash`, `fault`) and the `fault` engine itself (C16).
//!
//! The subject runs one history on the real tree, bracketing every op with marker syscalls
//! (mkdir in a side directory) so that each traced syscall can be attributed to an op. In fault
//! mode exactly one syscall fails (strace `inject=...:when=N`); the subject then checks the
//! property's promises in-process and reports them as JSON lines.

use crate::driver::{Driver, TreeCfg};
use crate::ops::Op;
use crate::oracles;
use lsm_tree::{AbstractTree, SeqNo};
use serde::{Deserialize, Serialize};
use std::path::{Path, PathBuf};

#[derive(Clone, Debug, Serialize, Deserialize)]
pub struct SubjectJob {
    pub dir: String,
    pub marks: String,
    pub cfg: TreeCfg,
    pub ops: Vec<Op>,
    /// "plain" | "retry" | "reopen"
    pub mode: String,
    /// per op (clean run): the logical live dump right after it
    #[serde(default)]
    pub clean_live: Vec<Vec<String>>,
    /// per op (clean run): the dump a clean drop + reopen after it gives (index 0 = before any op)
    #[serde(default)]
    pub clean_reopen: Vec<Vec<String>>,
}

#[derive(Clone, Debug, Serialize, Deserialize, Default)]
pub struct SubjectReport {
    /// per op: did it return an error
    pub errs: Vec<Option<String>>,
    pub live: Vec<Vec<String>>,
    pub checks: Vec<Check>,
    pub finished: bool,
    pub panicked: Option<String>,
}

#[derive(Clone, Debug, Serialize, Deserialize)]
pub struct Check {
    pub name: String,
    pub ok: bool,
    pub detail: String,
    pub op: usize,
}

/// Logical dump of the live tree: values only (sequence numbers differ after a retried op).
pub fn live_dump(d: &Driver) -> Vec<String> {
    let t = d.t();
    let mut out = vec![];
    let mut keys = d.cfg.keys.clone();
    keys.push(oracles::absent_key());
    let mut ss: Vec<(String, SeqNo)> = vec![("max".into(), SeqNo::MAX)];
    for (i, s) in d.snaps.iter().enumerate() {
        ss.push((format!("snap{i}"), *s));
    }
    for (name, s) in ss {
        for k in &keys {
            out.push(format!("get {k:?}@{name} = {:?}", oracles::get(t, k, s)));
        }
        out.push(format!("scan@{name} = {:?}", oracles::scan_fwd(t, s)));
        out.push(format!("scan_rev@{name} = {:?}", oracles::scan_rev(t, s)));
        out.push(format!("len@{name} = {:?}", t.len(s, None).map_err(|e| format!("{e:?}"))));
    }
    out
}

#[allow(dead_code)]
pub fn shape_dump(d: &Driver) -> Vec<String> {
    let hist = lsm_tree::verif_hooks::history(d.inner());
    let last = hist.last().unwrap();
    vec![
        format!("shape = {:?}", oracles::shape_of(&last.version)),
        format!("sealed = {}", last.sealed.len()),
        format!("blob_files = {}", last.version.blob_files.len()),
    ]
}

fn mark(marks: &Path, name: &str) {
    let _ = std::fs::create_dir(marks.join(name));
}

pub fn subject_main(job_path: &str) -> i32 {
    let job: SubjectJob = serde_json::from_str(&std::fs::read_to_string(job_path).expect("job file")).expect("job json");
    let dir = PathBuf::from(&job.dir);
    let marks = PathBuf::from(&job.marks);
    let mut rep = SubjectReport::default();
    let res = std::panic::catch_unwind(std::panic::AssertUnwindSafe(|| {
        mark(&marks, "S");
        let mut d = match Driver::new(&dir, job.cfg.clone()) {
            Ok(d) => d,
            Err(e) => {
                rep.errs.push(Some(format!("open: {e}")));
                return;
            }
        };
        mark(&marks, "O");
        let mut faulted = false;
        let mut skipped = false;
        let mut failed_at = 0usize;
        let n_ops = job.ops.len();
        for (i, op) in job.ops.iter().enumerate() {
            let pre = live_dump(&d);
            let model_before = d.model.clone();
            let snaps_before = d.snaps.clone();
            let opidx_before = d.opidx;
            mark(&marks, &format!("B{i}"));
            let info = d.apply(op);
            mark(&marks, &format!("E{i}"));
            rep.errs.push(info.err.clone());
            if let Some(e) = info.err {
                if faulted || job.mode == "plain" {
                    // second error in a single-fault run, or an error in a clean run
                    rep.checks.push(Check { name: "unexpected-error".into(), ok: false, detail: format!("{}: {e}", op.short()), op: i });
                    return;
                }
                faulted = true;
                // the model must forget what the failed op did to it
                d.model = model_before;
                d.snaps = snaps_before;
                // the retry must write the same values as the clean run
                d.opidx = opidx_before;
                // (1) every read keeps returning what it returned before the call
                let post = live_dump(&d);
                rep.checks.push(Check {
                    name: "reads-unchanged-after-failed-op".into(),
                    ok: post == pre,
                    detail: diff_lines(&pre, &post),
                    op: i,
                });
                // (2) nothing stays hidden by a compaction that is no longer running
                let hidden = lsm_tree::verif_hooks::hidden_tables(d.inner());
                rep.checks.push(Check { name: "hidden-set-empty-after-failed-op".into(), ok: hidden.is_empty(), detail: format!("{hidden:?}"), op: i });
                if job.mode == "reopen-files" {
                    // C20: after a failed op and a reopen no live file is gone and no partial file is left
                    d.tree = None;
                    match crate::corrupt::workload(&job.cfg, &dir, &[]) {
                        Err(e) => rep.checks.push(Check { name: "files-reopen-after-failed-op".into(), ok: false, detail: format!("reopen failed: {e}"), op: i }),
                        Ok(_) => {
                            let left = crate::corrupt::leftover_files(&job.cfg, &dir);
                            rep.checks.push(Check {
                                name: "files-leftover-after-failed-op-and-reopen".into(),
                                ok: left.is_empty(),
                                detail: format!("after the failed {} and a reopen the directory still holds {left:?}, which the recovered version does not name", op.short()),
                                op: i,
                            });
                        }
                    }
                    rep.finished = true;
                    return;
                }
                if job.mode == "reopen" {
                    // (4) reopening right away yields the state from before or after the failed call
                    d.tree = None;
                    match crate::corrupt::workload(&job.cfg, &dir, &[]) {
                        Err(e) => rep.checks.push(Check { name: "reopen-after-failed-op".into(), ok: false, detail: format!("reopen failed: {e}"), op: i }),
                        Ok(ans) => {
                            let before = job.clean_reopen.get(i);
                            let after = job.clean_reopen.get(i + 1);
                            let ok = Some(&ans) == before || Some(&ans) == after;
                            rep.checks.push(Check {
                                name: "reopen-after-failed-op".into(),
                                ok,
                                detail: if ok { String::new() } else { format!("got {:?}; before {:?}; after {:?}", ans, before, after) },
                                op: i,
                            });
                        }
                    }
                    rep.finished = true;
                    return;
                }
                if job.mode != "skip" {
                    // (3) repeating the call once the fault has cleared succeeds
                    let info2 = d.apply(op);
                    if let Some(e2) = info2.err {
                        rep.checks.push(Check { name: "retry-succeeds".into(), ok: false, detail: format!("{} failed again: {e2}", op.short()), op: i });
                        return;
                    }
                    rep.checks.push(Check { name: "retry-succeeds".into(), ok: true, detail: String::new(), op: i });
                }
                // mode "skip": the failed call is not repeated; the tree must remain usable for the
                // rest of the history (expected states: the clean run of the history without op i,
                // appended to the clean run's in `clean_live` / `clean_reopen`)
                skipped = job.mode == "skip";
                failed_at = i;
            }
            let live = live_dump(&d);
            if faulted || job.mode != "plain" {
                if let Some(want) = job.clean_live.get(if skipped { n_ops + i } else { i }) {
                    rep.checks.push(Check {
                        name: "state-equals-clean-run".into(),
                        ok: *want == live,
                        detail: diff_lines(want, &live),
                        op: i,
                    });
                }
            }
            rep.live.push(live);
        }
        // final clean reopen equals the clean run's
        if job.mode != "plain" {
            d.tree = None;
            match crate::corrupt::workload(&job.cfg, &dir, &[]) {
                Err(e) => rep.checks.push(Check { name: "final-reopen".into(), ok: false, detail: format!("reopen failed: {e}"), op: job.ops.len() }),
                Ok(ans) => {
                    let full = job.clean_reopen.get(n_ops);
                    let (ok, want) = if skipped {
                        // the state from before the failed call (the history without it) or from after it
                        // (the full history): a call may fail after its new version became durable
                        // (e.g. the fsync that follows the rename of `current`), and if nothing later
                        // persists another version that is what a reopen finds
                        let skip = job.clean_reopen.last();
                        let _ = failed_at;
                        (Some(&ans) == skip || Some(&ans) == full, skip)
                    } else {
                        (Some(&ans) == full, full)
                    };
                    rep.checks.push(Check {
                        name: "final-reopen".into(),
                        ok,
                        detail: if ok { String::new() } else { want.map(|w| diff_lines(w, &ans)).unwrap_or_default() },
                        op: job.ops.len(),
                    });
                }
            }
        }
        rep.finished = true;
    }));
    if let Err(p) = res {
        rep.panicked = Some(crate::hx::panic_message(&p));
    }
    println!("REPORT {}", serde_json::to_string(&rep).unwrap());
    0
}

pub fn diff_lines(a: &[String], b: &[String]) -> String {
    for (x, y) in a.iter().zip(b.iter()) {
        if x != y {
            return format!("`{x}` vs `{y}`");
        }
    }
    if a.len() != b.len() {
        return format!("{} vs {} answers", a.len(), b.len());
    }
    String::new()
}

/// Clean (untraced, in-process) run: live dump after every op and reopen dump after every prefix.
pub fn clean_run(cfg: &TreeCfg, ops: &[Op], scratch: &Path) -> Result<(Vec<Vec<String>>, Vec<Vec<String>>), String> {
    let mut live = vec![];
    let mut reopen = vec![];
    for k in 0..=ops.len() {
        let dir = scratch.join("clean");
        crate::hx::fresh_dir(&dir);
        let mut d = Driver::new(&dir, cfg.clone())?;
        for (i, op) in ops[..k].iter().enumerate() {
            let info = d.apply(op);
            if let Some(e) = info.err {
                return Err(format!("clean run: {} failed: {e}", op.short()));
            }
            if k == ops.len() {
                let _ = i;
                live.push(live_dump(&d));
            }
        }
        drop(d);
        reopen.push(crate::corrupt::workload(cfg, &dir, &[])?);
    }
    Ok((live, reopen))
}


// ---------------------------------------------------------------------------
// fault engine (C16)

use crate::strace::{self, Rec};
use std::sync::atomic::{AtomicU64, Ordering};
use std::sync::{Arc, Mutex};

#[derive(Clone, Debug, Serialize, Deserialize)]
pub struct FaultReplay {
    pub engine: String,
    pub property: String,
    pub history_name: String,
    pub cfg: TreeCfg,
    pub ops: Vec<Op>,
    pub op_index: usize,
    pub syscall: String,
    pub ordinal: u64,
    pub errno: String,
    pub mode: String,
    pub sig: String,
    pub msg: String,
}

#[derive(Clone, Debug)]
pub struct FaultPoint {
    pub op_index: usize,
    pub syscall: String,
    /// per-syscall-name ordinal since process start (strace `when=`)
    pub ordinal: u64,
    pub what: String,
}

fn marker_name(r: &Rec, marks: &str) -> Option<String> {
    if r.name != "mkdir" && r.name != "mkdirat" {
        return None;
    }
    for a in &r.args {
        if let Some(b) = a.as_bytes() {
            let p = String::from_utf8_lossy(b);
            if let Some(rest) = p.strip_prefix(marks) {
                return Some(rest.trim_start_matches('/').to_string());
            }
        }
    }
    None
}

fn faultable(name: &str) -> &'static [&'static str] {
    match name {
        "write" | "pwrite64" | "writev" => &["ENOSPC", "EIO"],
        "openat" | "open" | "creat" => &["ENOSPC", "EIO"],
        "mkdir" | "mkdirat" => &["ENOSPC"],
        "rename" | "renameat" | "renameat2" => &["EIO", "ENOSPC"],
        "fsync" | "fdatasync" => &["EIO"],
        "unlink" | "unlinkat" | "rmdir" => &["EIO"],
        "read" | "pread64" => &["EIO"],
        "ftruncate" | "truncate" => &["EIO"],
        "getdents64" => &["EIO"],
        "statx" | "newfstatat" | "fstat" => &["EIO"],
        _ => &[],
    }
}

/// Fault points of a history: every faultable syscall issued between the B/E markers of an op.
pub fn fault_points(recs: &[Rec], marks: &str) -> Vec<FaultPoint> {
    let mut counts: std::collections::HashMap<String, u64> = Default::default();
    let mut cur_op: Option<usize> = None;
    let mut out = vec![];
    for r in recs {
        *counts.entry(r.name.clone()).or_insert(0) += 1;
        if let Some(m) = marker_name(r, marks) {
            if let Some(n) = m.strip_prefix('B') {
                cur_op = n.parse().ok();
            } else if m.starts_with('E') {
                cur_op = None;
            }
            continue;
        }
        if let Some(k) = cur_op {
            if !faultable(&r.name).is_empty() {
                let what = r
                    .args
                    .iter()
                    .filter_map(|a| a.as_bytes())
                    .map(|b| String::from_utf8_lossy(b).chars().take(60).collect::<String>())
                    .next()
                    .unwrap_or_default();
                out.push(FaultPoint { op_index: k, syscall: r.name.clone(), ordinal: counts[&r.name], what });
            }
        }
    }
    out
}

pub struct FaultHistory {
    pub name: String,
    pub cfg: TreeCfg,
    pub ops: Vec<Op>,
}

pub fn fault_histories(tier: &str) -> Vec<FaultHistory> {
    use crate::ops::{Bnd, IKind, Wm};
    let ab = crate::driver::keys_ab();
    let fl = Op::Flush { w: Wm::Tight };
    let std_cfg = {
        let mut c = TreeCfg::small(ab.clone());
        c.block_size = 4096;
        c
    };
    let mut v = vec![
        FaultHistory {
            name: "flush-flush-major".into(),
            cfg: std_cfg.clone(),
            ops: vec![
                Op::MultiPut { ks: vec![0, 1] },
                fl.clone(),
                Op::Put { k: 0, big: false },
                Op::Del { k: 1 },
                fl.clone(),
                Op::Major { w: Wm::Tight, target: u64::MAX },
                Op::Put { k: 1, big: false },
                fl.clone(),
            ],
        },
        FaultHistory {
            name: "blob-flush-major".into(),
            cfg: {
                let mut c = std_cfg.clone().with_blob(16);
                if let Some(b) = &mut c.blob {
                    b.staleness = 0.0;
                    b.age_cutoff = 1.0;
                }
                c
            },
            // two large values share blob file 0; the first major compaction makes it half stale,
            // the second one relocates it
            ops: vec![
                Op::Put { k: 0, big: true },
                Op::Put { k: 1, big: true },
                fl.clone(),
                Op::Put { k: 0, big: true },
                fl.clone(),
                Op::Major { w: Wm::Tight, target: u64::MAX },
                Op::Major { w: Wm::Tight, target: u64::MAX },
                // drop-type version change on a blob tree (same path FIFO uses)
                Op::DropRange { lo: Bnd::Unb, hi: Bnd::Unb },
            ],
        },
    ];
    // a drop that changes reads, with a watermark that lets the version-history maintenance remove old
    // version files after the new version is installed; keys ascend, so L0 stays disjoint (FIFO's
    // precondition) whichever op is skipped
        v.push(FaultHistory {
            // FIFO drop (Choice::Drop path of the compaction worker) on a standard and on a blob tree
            name: "fifo-drop".into(),
            cfg: TreeCfg::small(crate::driver::keys_abc()),
            ops: vec![
                Op::Put { k: 0, big: false },
                fl.clone(),
                Op::Put { k: 1, big: false },
                fl.clone(),
                Op::Fifo { limit: 1, ttl: None, w: Wm::Tight },
                Op::Put { k: 2, big: false },
                fl.clone(),
            ],
        });
    if tier != "quick" {
        v.push(FaultHistory {
            name: "leveled-moves-and-merges".into(),
            cfg: TreeCfg::small(ab.clone()),
            ops: vec![
                Op::MultiPut { ks: vec![0, 1] },
                fl.clone(),
                Op::Leveled { w: Wm::Tight, p: 0 },
                Op::MultiPut { ks: vec![0, 1] },
                fl.clone(),
                Op::Leveled { w: Wm::Tight, p: 0 },
                Op::Put { k: 0, big: false },
                fl.clone(),
                Op::Leveled { w: Wm::Zero, p: 0 },
            ],
        });
        v.push(FaultHistory {
            name: "clear-droprange-ingest".into(),
            cfg: std_cfg.clone(),
            ops: vec![
                Op::MultiPut { ks: vec![0, 1] },
                fl.clone(),
                Op::Ingest { items: vec![(0, IKind::Val), (1, IKind::Tomb)] },
                Op::DropRange { lo: Bnd::Inc(b"a".to_vec()), hi: Bnd::Inc(b"a".to_vec()) },
                Op::Put { k: 1, big: false },
                fl.clone(),
                Op::Clear,
                Op::Put { k: 0, big: false },
                fl.clone(),
            ],
        });
        v.push(FaultHistory {
            name: "blob-fifo-drop".into(),
            cfg: TreeCfg::small(crate::driver::keys_abc()).with_blob(16),
            ops: vec![
                Op::Put { k: 0, big: true },
                fl.clone(),
                Op::Put { k: 1, big: true },
                fl.clone(),
                Op::Fifo { limit: 1, ttl: None, w: Wm::Tight },
                Op::Put { k: 2, big: true },
                fl.clone(),
            ],
        });
        v.push(FaultHistory {
            name: "blob-ingest-droprange".into(),
            cfg: std_cfg.clone().with_blob(16),
            ops: vec![
                Op::Put { k: 0, big: true },
                fl.clone(),
                Op::Ingest { items: vec![(0, IKind::BigVal), (1, IKind::Val)] },
                Op::DropRange { lo: Bnd::Unb, hi: Bnd::Unb },
                Op::Put { k: 1, big: true },
                fl.clone(),
            ],
        });
    }
    v
}

/// Expected live / reopen dumps for continuation "skip" after a failure in op `k`: those of the clean
/// run of the history without op `k` (the failed call changed nothing), re-indexed to the full history.
pub fn skip_expectation(h: &FaultHistory, k: usize, root: &Path) -> Result<(Vec<Vec<String>>, Vec<Vec<String>>), String> {
    let mut ops = h.ops.clone();
    ops.remove(k);
    let (l, r) = clean_run(&h.cfg, &ops, root)?;
    let (full_live, full_reopen) = clean_run(&h.cfg, &h.ops, root)?;
    let initial = {
        let dir = root.join("clean");
        crate::hx::fresh_dir(&dir);
        let d = Driver::new(&dir, h.cfg.clone())?;
        live_dump(&d)
    };
    let mut live = full_live;
    for j in 0..h.ops.len() {
        let v = if j < k {
            l[j].clone()
        } else if j == k {
            if k == 0 { initial.clone() } else { l[k - 1].clone() }
        } else {
            l[j - 1].clone()
        };
        live.push(v);
    }
    let mut reopen = full_reopen;
    reopen.push(r.last().cloned().unwrap_or_default());
    Ok((live, reopen))
}

pub struct FaultOutcome {
    pub runs: u64,
    pub points: u64,
    pub op_failed: u64,
    pub swallowed: u64,
    pub not_reached: u64,
    pub found: Vec<FaultReplay>,
    pub machinery: Vec<String>,
    pub capped: bool,
    pub samples: Vec<serde_json::Value>,
    pub wall_s: f64,
    pub histories: usize,
}

pub fn run_one_fault(
    scratch: &Path,
    h: &FaultHistory,
    clean_live: &[Vec<String>],
    clean_reopen: &[Vec<String>],
    syscall: &str,
    ordinal: u64,
    errno: &str,
    mode: &str,
) -> Result<(SubjectReport, bool), String> {
    let dir = scratch.join("tree");
    let marks = scratch.join("marks");
    crate::hx::fresh_dir(&dir);
    let _ = std::fs::remove_dir_all(&dir); // the subject creates the tree itself
    crate::hx::fresh_dir(&marks);
    let job = SubjectJob {
        dir: dir.to_string_lossy().into_owned(),
        marks: marks.to_string_lossy().into_owned(),
        cfg: h.cfg.clone(),
        ops: h.ops.clone(),
        mode: mode.to_string(),
        clean_live: clean_live.to_vec(),
        clean_reopen: clean_reopen.to_vec(),
    };
    let job_path = scratch.join("job.json");
    std::fs::write(&job_path, serde_json::to_string(&job).unwrap()).map_err(|e| e.to_string())?;
    let trace = scratch.join("trace.txt");
    let exe = std::env::current_exe().map_err(|e| e.to_string())?;
    let out = std::process::Command::new("strace")
        .arg("-f")
        .arg("-o")
        .arg(&trace)
        .arg("-e")
        .arg(format!("trace={syscall}"))
        .arg("-e")
        .arg(format!("inject={syscall}:error={errno}:when={ordinal}"))
        .arg(&exe)
        .arg("fs-subject")
        .arg(&job_path)
        .output()
        .map_err(|e| format!("strace: {e}"))?;
    let stdout = String::from_utf8_lossy(&out.stdout);
    let injected = std::fs::read_to_string(&trace).map(|t| t.contains("(INJECTED)")).unwrap_or(false);
    let rep = stdout
        .lines()
        .find_map(|l| l.strip_prefix("REPORT "))
        .and_then(|j| serde_json::from_str::<SubjectReport>(j).ok());
    match rep {
        Some(r) => Ok((r, injected)),
        None => Err(format!("subject produced no report (exit {:?}); injected={injected}", out.status.code())),
    }
}

pub fn run_faults(tier: &str, threads: usize, max_wall_s: f64) -> FaultOutcome {
    run_faults_for(tier, threads, max_wall_s, false)
}

/// `files_mode`: the C20 part - only the continuation "reopen, then list the directory", only for calls that change the file system.
pub fn run_faults_for(tier: &str, threads: usize, max_wall_s: f64, files_mode: bool) -> FaultOutcome {
    let start = std::time::Instant::now();
    let root = crate::hx::scratch_root().join("fault");
    crate::hx::fresh_dir(&root);
    let mut machinery = vec![];
    if !strace::strace_available() {
        machinery.push("strace is not available".to_string());
    }
    let hs = fault_histories(tier);
    let n_hist = hs.len();
    struct Work {
        h: Arc<FaultHistory>,
        live: Arc<Vec<Vec<String>>>,
        reopen: Arc<Vec<Vec<String>>>,
        p: FaultPoint,
        errno: &'static str,
        mode: &'static str,
    }
    let mut work: Vec<Work> = vec![];
    let mut points = 0u64;
    let mut samples = vec![];
    for h in hs {
        let (live, reopen) = match clean_run(&h.cfg, &h.ops, &root) {
            Ok(x) => x,
            Err(e) => {
                machinery.push(e);
                continue;
            }
        };
        // traced clean run for the syscall log
        let sc = root.join("trace-clean");
        crate::hx::fresh_dir(&sc);
        let marks = sc.join("marks");
        crate::hx::fresh_dir(&marks);
        let job = SubjectJob {
            dir: sc.join("tree").to_string_lossy().into_owned(),
            marks: marks.to_string_lossy().into_owned(),
            cfg: h.cfg.clone(),
            ops: h.ops.clone(),
            mode: "plain".into(),
            clean_live: vec![],
            clean_reopen: vec![],
        };
        let jp = sc.join("job.json");
        std::fs::write(&jp, serde_json::to_string(&job).unwrap()).unwrap();
        let exe = std::env::current_exe().unwrap();
        let recs = match strace::run_traced(&sc.join("trace.txt"), None, 64, &exe, &["fs-subject", jp.to_str().unwrap()]) {
            Ok((_, out, recs)) => {
                if !out.contains("REPORT ") {
                    machinery.push(format!("clean traced run of {} gave no report", h.name));
                    continue;
                }
                recs
            }
            Err(e) => {
                machinery.push(format!("strace failed: {e}"));
                continue;
            }
        };
        let pts = fault_points(&recs, &job.marks);
        points += pts.len() as u64;
        if samples.len() < 4 {
            samples.push(serde_json::json!({
                "history": h.name, "ops": crate::ops::short_hist(&h.ops), "syscalls_inside_ops": pts.len(),
                "example_fault": pts.get(pts.len() / 2).map(|p| format!("op {} ({}): {} #{} {}", p.op_index, h.ops[p.op_index].short(), p.syscall, p.ordinal, p.what)),
            }));
        }
        let h = Arc::new(h);
        let live = Arc::new(live);
        let reopen = Arc::new(reopen);
        let mut skip_exp: std::collections::BTreeMap<usize, (Arc<Vec<Vec<String>>>, Arc<Vec<Vec<String>>>)> = Default::default();
        for p in pts {
            // quick: one errno per call (the first = the most plausible one); thorough: all
            let errnos: &[&'static str] = if tier == "quick" { &faultable(&p.syscall)[..1] } else { faultable(&p.syscall) };
            // continuations "reopen" and "skip" (go on without repeating the call): quick only for
            // calls that change the file system (a failed read leaves nothing behind on disk)
            let mutating = !matches!(p.syscall.as_str(), "read" | "pread64" | "getdents64" | "statx" | "newfstatat" | "fstat");
            if files_mode {
                if mutating {
                    work.push(Work { h: h.clone(), live: live.clone(), reopen: reopen.clone(), p: p.clone(), errno: errnos[0], mode: "reopen-files" });
                }
                continue;
            }
            for errno in errnos {
                for mode in ["retry", "reopen", "skip"] {
                    if mode != "retry" && tier == "quick" && !mutating {
                        continue;
                    }
                    if mode == "skip" {
                        if !skip_exp.contains_key(&p.op_index) {
                            match skip_expectation(&h, p.op_index, &root) {
                                Ok((l, r)) => {
                                    skip_exp.insert(p.op_index, (Arc::new(l), Arc::new(r)));
                                }
                                Err(e) => {
                                    machinery.push(format!("skip expectation of {} op {}: {e}", h.name, p.op_index));
                                    continue;
                                }
                            }
                        }
                        let (l, r) = skip_exp[&p.op_index].clone();
                        work.push(Work { h: h.clone(), live: l, reopen: r, p: p.clone(), errno, mode });
                    } else {
                        work.push(Work { h: h.clone(), live: live.clone(), reopen: reopen.clone(), p: p.clone(), errno, mode });
                    }
                }
            }
        }
    }
    let work = Arc::new(work);
    let next = Arc::new(AtomicU64::new(0));
    let runs = Arc::new(AtomicU64::new(0));
    let op_failed = Arc::new(AtomicU64::new(0));
    let swallowed = Arc::new(AtomicU64::new(0));
    let not_reached = Arc::new(AtomicU64::new(0));
    let found: Arc<Mutex<Vec<FaultReplay>>> = Arc::new(Mutex::new(vec![]));
    let mach: Arc<Mutex<Vec<String>>> = Arc::new(Mutex::new(machinery));
    let capped = Arc::new(std::sync::atomic::AtomicBool::new(false));
    let mut handles = vec![];
    for w in 0..threads {
        let (work, next, runs, op_failed, swallowed, not_reached, found, mach, capped) = (
            work.clone(), next.clone(), runs.clone(), op_failed.clone(), swallowed.clone(), not_reached.clone(), found.clone(), mach.clone(), capped.clone(),
        );
        let scratch = root.join(format!("w{w}"));
        handles.push(std::thread::spawn(move || {
            crate::hx::fresh_dir(&scratch);
            loop {
                let i = next.fetch_add(1, Ordering::Relaxed) as usize;
                if i >= work.len() {
                    break;
                }
                if start.elapsed().as_secs_f64() > max_wall_s {
                    capped.store(true, Ordering::Relaxed);
                    break;
                }
                // spread a capped run over the whole history instead of its first ops
                let n = work.len();
                let stride = [7919usize, 104_729, 1_299_709].into_iter().find(|p| n % p != 0).unwrap_or(1);
                let wk = &work[(i * stride) % n];
                runs.fetch_add(1, Ordering::Relaxed);
                let res = run_one_fault(&scratch, &wk.h, &wk.live, &wk.reopen, &wk.p.syscall, wk.p.ordinal, wk.errno, wk.mode);
                let push = |sig: String, msg: String| {
                    found.lock().unwrap().push(FaultReplay {
                        engine: "fault".into(),
                        property: if files_mode { "C20".into() } else { "C16".into() },
                        history_name: wk.h.name.clone(),
                        cfg: wk.h.cfg.clone(),
                        ops: wk.h.ops.clone(),
                        op_index: wk.p.op_index,
                        syscall: wk.p.syscall.clone(),
                        ordinal: wk.p.ordinal,
                        errno: wk.errno.to_string(),
                        mode: wk.mode.to_string(),
                        sig,
                        msg,
                    });
                };
                let opname = wk.h.ops[wk.p.op_index].name();
                let ctx = format!(
                    "history {} op {} ({}), {} #{} ({}) failing with {}, continuation {}",
                    wk.h.name, wk.p.op_index, wk.h.ops[wk.p.op_index].short(), wk.p.syscall, wk.p.ordinal, wk.p.what, wk.errno, wk.mode
                );
                let files_only = wk.mode == "reopen-files";
                match res {
                    Err(_) if files_only => {} // a dying subject is C16's finding
                    Err(e) => {
                        // no report: the subject died (abort) - the tree did not remain usable
                        push(format!("subject-died:{opname}:{}", wk.p.syscall), format!("{ctx}: {e}"));
                    }
                    Ok((rep, injected)) => {
                        if !injected {
                            not_reached.fetch_add(1, Ordering::Relaxed);
                            mach.lock().unwrap().push(format!("fault point not reached: {ctx}"));
                            continue;
                        }
                        if let Some(p) = &rep.panicked {
                            if !files_only {
                                push(format!("panic:{opname}:{}", wk.p.syscall), format!("{ctx}: panic: {p}"));
                            }
                            continue;
                        }
                        if rep.errs.iter().any(|e| e.is_some()) {
                            op_failed.fetch_add(1, Ordering::Relaxed);
                        } else {
                            swallowed.fetch_add(1, Ordering::Relaxed);
                        }
                        for c in rep.checks.iter().filter(|c| !c.ok && (!files_only || c.name.starts_with("files-"))) {
                            let on = wk.h.ops.get(c.op).map_or("end", |o| o.name());
                            push(format!("{}:{opname}:{}", c.name, wk.p.syscall), format!("{ctx}: check `{}` failed at op {} ({on}): {}", c.name, c.op, c.detail));
                        }
                        if !files_only && !rep.finished && rep.checks.iter().all(|c| c.ok) {
                            push(format!("unfinished:{opname}:{}", wk.p.syscall), format!("{ctx}: the history did not run to its end: errs {:?}", rep.errs));
                        }
                    }
                }
            }
        }));
    }
    for h in handles {
        h.join().expect("fault worker");
    }
    let _ = std::fs::remove_dir_all(&root);
    let found = found.lock().unwrap().clone();
    let machinery = mach.lock().unwrap().clone();
    FaultOutcome {
        runs: runs.load(Ordering::Relaxed),
        points,
        op_failed: op_failed.load(Ordering::Relaxed),
        swallowed: swallowed.load(Ordering::Relaxed),
        not_reached: not_reached.load(Ordering::Relaxed),
        found,
        machinery,
        capped: capped.load(Ordering::Relaxed),
        samples,
        wall_s: start.elapsed().as_secs_f64(),
        histories: n_hist,
    }
}

pub fn replay_fault(rp: &FaultReplay) -> Result<Vec<String>, String> {
    let root = crate::hx::scratch_root().join("fault-replay");
    crate::hx::fresh_dir(&root);
    let h = FaultHistory { name: rp.history_name.clone(), cfg: rp.cfg.clone(), ops: rp.ops.clone() };
    let (live, reopen) = if rp.mode == "skip" { skip_expectation(&h, rp.op_index, &root)? } else { clean_run(&h.cfg, &h.ops, &root)? };
    let r = run_one_fault(&root, &h, &live, &reopen, &rp.syscall, rp.ordinal, &rp.errno, &rp.mode);
    let _ = std::fs::remove_dir_all(&root);
    match r {
        Err(e) => Ok(vec![format!("subject-died: {e}")]),
        Ok((rep, injected)) => {
            if !injected {
                return Err("fault point not reached".into());
            }
            let mut out = vec![];
            if let Some(p) = rep.panicked {
                out.push(format!("panic: {p}"));
            }
            for c in rep.checks.iter().filter(|c| !c.ok && (rp.mode != "reopen-files" || c.name.starts_with("files-"))) {
                out.push(format!("{}: {}", c.name, c.detail));
            }
            if !rep.finished && out.is_empty() {
                out.push(format!("unfinished: errs {:?}", rep.errs));
            }
            Ok(out)
        }
    }
}
