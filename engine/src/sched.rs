//! `sched` (C06): stateless exploration of thread schedules of the real tree under a controlled
//! scheduler. Scheduling points sit before every lock acquisition of the crate (feature
//! `verif_hooks`) and at a few harness-level points; enabledness is decided by probing the real
//! locks while every other thread is parked. Iterative context bounding (CHESS).

use crate::driver::{small_value, Driver, TreeCfg};
use lsm_tree::verif_hooks::{self as vh, Pending, Scheduler};
use lsm_tree::{AbstractTree, AnyTree, SeqNo, SequenceNumberCounter, Tree};
use serde::{Deserialize, Serialize};
use std::collections::BTreeMap;
use std::path::Path;
use std::sync::atomic::{AtomicBool, AtomicU64, Ordering};
use std::sync::{Arc, Condvar, Mutex};

#[derive(Clone, Debug, PartialEq)]
enum TState {
    NotStarted,
    Parked(Pending),
    Running,
    Finished,
}

#[derive(Clone, Debug)]
pub struct Decision {
    pub enabled: Vec<usize>,
    pub chosen: usize,
    /// the thread that was running when the decision was taken, if it is among `enabled`
    pub running: Option<usize>,
}

struct SState {
    threads: Vec<TState>,
    current: Option<usize>,
    prefix: Vec<usize>,
    decisions: Vec<Decision>,
    deadlock: bool,
    diverged: Option<String>,
    free_run: bool,
    steps: u64,
}

pub struct Sched {
    st: Mutex<SState>,
    cv: Condvar,
    tree: Tree,
}

impl Sched {
    fn new(n: usize, prefix: Vec<usize>, tree: Tree) -> Self {
        Self {
            st: Mutex::new(SState {
                threads: vec![TState::NotStarted; n],
                current: None,
                prefix,
                decisions: vec![],
                deadlock: false,
                diverged: None,
                free_run: false,
                steps: 0,
            }),
            cv: Condvar::new(),
            tree,
        }
    }

    fn enabled(&self, st: &SState, t: usize) -> bool {
        match &st.threads[t] {
            TState::Parked(Pending::Lock(id, mode)) => vh::probe(&self.tree, *id, *mode),
            TState::Parked(Pending::Point(_)) => true,
            _ => false,
        }
    }

    /// Picks the next thread to run. `from` = the thread that just yielded (still parked).
    fn schedule_next(&self, st: &mut SState, from: Option<usize>) {
        let n = st.threads.len();
        let mut enabled: Vec<usize> = vec![];
        if let Some(f) = from {
            if self.enabled(st, f) {
                enabled.push(f);
            }
        }
        for t in 0..n {
            if Some(t) != from && self.enabled(st, t) {
                enabled.push(t);
            }
        }
        if enabled.is_empty() {
            st.current = None;
            if st.threads.iter().any(|t| matches!(t, TState::Parked(_))) {
                st.deadlock = true;
                st.free_run = true; // let them run into the real locks; a watchdog decides
            }
            self.cv.notify_all();
            return;
        }
        let idx = if enabled.len() >= 2 {
            let di = st.decisions.len();
            let idx = if di < st.prefix.len() {
                let p = st.prefix[di];
                if p >= enabled.len() {
                    st.diverged = Some(format!("decision {di}: prefix asks for choice {p} but only {} threads are enabled", enabled.len()));
                    0
                } else {
                    p
                }
            } else {
                0
            };
            st.decisions.push(Decision {
                enabled: enabled.clone(),
                chosen: idx,
                running: from.filter(|f| enabled.first() == Some(f)),
            });
            idx
        } else {
            0
        };
        let next = enabled[idx];
        st.threads[next] = TState::Running;
        st.current = Some(next);
        st.steps += 1;
        self.cv.notify_all();
    }

    fn finish(&self, t: usize) {
        let mut st = self.st.lock().unwrap();
        st.threads[t] = TState::Finished;
        if !st.free_run {
            self.schedule_next(&mut st, None);
        }
        self.cv.notify_all();
    }
}

impl Scheduler for Sched {
    fn before(&self, thread: usize, pending: Pending) {
        let mut st = self.st.lock().unwrap();
        if st.free_run {
            return;
        }
        let was_start = st.threads[thread] == TState::NotStarted;
        st.threads[thread] = TState::Parked(pending);
        if was_start {
            // threads park at their start point; the explorer kicks the run off
            self.cv.notify_all();
        } else {
            self.schedule_next(&mut st, Some(thread));
        }
        while st.current != Some(thread) && !st.free_run {
            st = self.cv.wait(st).unwrap();
        }
    }
}

// ---------------------------------------------------------------------------
// scenarios

#[derive(Clone, Debug, Serialize, Deserialize, PartialEq)]
pub enum Step {
    Put { k: u8 },
    Del { k: u8 },
    /// rotate + flush with watermark 0 / the static safe watermark
    RotateFlush { safe_wm: bool },
    Rotate,
    Leveled { safe_wm: bool },
    Major { safe_wm: bool },
    MoveDown { from: u8, to: u8 },
    PullDown { from: u8, to: u8 },
    DropRange { k: u8 },
    /// take a snapshot the writer has published, then get every key and scan
    Read,
    /// the seqno high-water marks may never be below a write that was acknowledged before the call
    ReadSeqnos,
}

#[derive(Clone, Debug, Serialize, Deserialize)]
pub struct Scenario {
    pub name: String,
    pub cfg: TreeCfg,
    /// sequential preload (ops of the hx alphabet), run outside the scheduler
    pub preload: Vec<crate::ops::Op>,
    pub threads: Vec<Vec<Step>>,
    /// index of the (single) writer thread
    pub writer: usize,
}

#[derive(Clone, Debug, Serialize, Deserialize)]
pub struct SchedReplay {
    pub engine: String,
    pub property: String,
    pub scenario: Scenario,
    pub schedule: Vec<usize>,
    pub sig: String,
    pub msg: String,
}

pub struct ExecResult {
    pub decisions: Vec<Decision>,
    pub violations: Vec<(String, String)>,
    pub machinery: Option<String>,
    pub steps: u64,
    pub outcome: u64,
}

struct Shared {
    tree: AnyTree,
    seqno: SequenceNumberCounter,
    visible: SequenceNumberCounter,
    /// snapshot value the writer has published (s + 1 after each completed write)
    published: AtomicU64,
    /// writer ops in order: (key, kind 0 put / 1 del, value, seqno once allocated)
    wlog: Mutex<Vec<(Vec<u8>, u8, Vec<u8>, u64)>>,
    /// a version was installed between a write's seqno allocation and its insert
    delayed_insert: AtomicBool,
    errors: Mutex<Vec<(String, String)>>,
    reads: Mutex<Vec<(u64, Vec<(Vec<u8>, Option<Vec<u8>>)>, Vec<(Vec<u8>, Vec<u8>)>)>>,
    static_wm: u64,
    keys: Vec<Vec<u8>>,
    leveled: crate::driver::LeveledParams,
}

fn inner_of(t: &AnyTree) -> &Tree {
    match t {
        AnyTree::Standard(t) => t,
        AnyTree::Blob(b) => &b.index,
    }
}

fn run_step(sh: &Shared, step: &Step, tid: usize) {
    let t = &sh.tree;
    let err = |what: &str, e: String| sh.errors.lock().unwrap().push((format!("op-err:{what}"), format!("thread {tid}: {what} returned {e}")));
    match step {
        Step::Put { k } | Step::Del { k } => {
            let key = sh.keys[*k as usize].clone();
            let s = sh.seqno.next();
            let is_del = matches!(step, Step::Del { .. });
            let val = if is_del { vec![] } else { small_value(b'w', s) };
            sh.wlog.lock().unwrap().push((key.clone(), u8::from(is_del), val.clone(), s));
            vh::point("writer:seqno-allocated");
            if is_del {
                let _ = t.remove(key, s);
            } else {
                let _ = t.insert(key, val, s);
            }
            // cause detection for the recorded finding (DESIGN 8.7): was a version installed between
            // the allocation of this write's seqno and its insert? (no scheduling point since the insert)
            if vh::history(inner_of(t)).iter().any(|sv| sv.seqno > s) {
                sh.delayed_insert.store(true, Ordering::SeqCst);
            }
            vh::point("writer:inserted");
            sh.visible.fetch_max(s + 1);
            sh.published.fetch_max(s + 1, Ordering::SeqCst);
        }
        Step::Rotate => {
            t.rotate_memtable();
        }
        Step::RotateFlush { safe_wm } => {
            let wm = if *safe_wm { sh.static_wm } else { 0 };
            let lock = t.get_flush_lock();
            t.rotate_memtable();
            if let Err(e) = t.flush(&lock, wm) {
                err("flush", format!("{e:?}"));
            }
        }
        Step::Leveled { safe_wm } => {
            let wm = if *safe_wm { sh.static_wm } else { 0 };
            let s = lsm_tree::compaction::Leveled::default()
                .with_l0_threshold(sh.leveled.l0_threshold)
                .with_table_target_size(sh.leveled.target_size)
                .with_level_ratio_policy(vec![sh.leveled.ratio]);
            if let Err(e) = t.compact(Arc::new(s), wm) {
                err("compact(leveled)", format!("{e:?}"));
            }
        }
        Step::Major { safe_wm } => {
            let wm = if *safe_wm { sh.static_wm } else { 0 };
            if let Err(e) = t.major_compact(64, wm) {
                err("major_compact", format!("{e:?}"));
            }
        }
        Step::MoveDown { from, to } => {
            if let Err(e) = t.compact(Arc::new(lsm_tree::compaction::MoveDown(*from, *to)), 0) {
                err("compact(movedown)", format!("{e:?}"));
            }
        }
        Step::PullDown { from, to } => {
            if let Err(e) = t.compact(Arc::new(lsm_tree::compaction::PullDown(*from, *to)), 0) {
                err("compact(pulldown)", format!("{e:?}"));
            }
        }
        Step::DropRange { k } => {
            let key = sh.keys[*k as usize].clone();
            if let Err(e) = t.drop_range::<Vec<u8>, _>(key.clone()..=key) {
                err("drop_range", format!("{e:?}"));
            }
        }
        Step::ReadSeqnos => {
            let p = sh.published.load(Ordering::SeqCst);
            let h = t.get_highest_seqno();
            // published = seqno + 1 of the last acknowledged write (the preload publishes too)
            if p > 0 && h.is_none_or(|h| h + 1 < p) {
                sh.errors.lock().unwrap().push((
                    "highest-seqno-below-acknowledged-write".into(),
                    format!("thread {tid}: get_highest_seqno() = {h:?} although a write with seqno {} had been acknowledged before the call", p - 1),
                ));
            }
        }
        Step::Read => {
            let s = sh.published.load(Ordering::SeqCst);
            let mut gets = vec![];
            for k in &sh.keys {
                match t.get(k, s) {
                    Ok(v) => gets.push((k.clone(), v.map(|x| x.to_vec()))),
                    Err(e) => err("get", format!("{e:?}")),
                }
            }
            let scan = match crate::oracles::scan_fwd(t, s) {
                Ok(x) => x,
                Err(e) => {
                    err("scan", e);
                    vec![]
                }
            };
            sh.reads.lock().unwrap().push((s, gets, scan));
        }
    }
}

/// Expected value of `key` at snapshot `s`: preload (all below the static start) + writer ops below `s`.
fn expect_at(pre: &crate::model::Model, wlog: &[(Vec<u8>, u8, Vec<u8>, u64)], key: &[u8], s: SeqNo) -> Option<Vec<u8>> {
    let w = wlog.iter().filter(|(k, _, _, sq)| k == key && *sq < s).max_by_key(|x| x.3);
    match w {
        Some((_, 0, v, _)) => Some(v.clone()),
        Some(_) => None,
        None => match pre.read(key, s) {
            crate::model::Expect::Exact(Some((v, _))) => Some(v),
            _ => None,
        },
    }
}

pub fn run_execution(sc: &Scenario, dir: &Path, prefix: &[usize]) -> ExecResult {
    let t0 = std::time::Instant::now();
    let prof = std::env::var("VERIF_SCHED_PROFILE").is_ok();
    crate::hx::fresh_dir(dir);
    let mut viol: Vec<(String, String)> = vec![];
    // preload outside the scheduler
    let mut d = match Driver::new(dir, sc.cfg.clone()) {
        Ok(d) => d,
        Err(e) => return ExecResult { decisions: vec![], violations: vec![], machinery: Some(format!("open: {e}")), steps: 0, outcome: 0 },
    };
    for op in &sc.preload {
        let info = d.apply(op);
        if let Some(e) = info.err {
            return ExecResult { decisions: vec![], violations: vec![], machinery: Some(format!("preload {}: {e}", op.short())), steps: 0, outcome: 0 };
        }
    }
    if prof {
        eprintln!("preload {:?}", t0.elapsed());
    }
    let pre_model = d.model.clone();
    let published0 = d.visible.get();
    let sh = Arc::new(Shared {
        tree: d.t().clone(),
        seqno: d.seqno.clone(),
        visible: d.visible.clone(),
        published: AtomicU64::new(published0),
        wlog: Mutex::new(vec![]),
        delayed_insert: AtomicBool::new(false),
        errors: Mutex::new(vec![]),
        reads: Mutex::new(vec![]),
        static_wm: published0.saturating_sub(1),
        keys: sc.cfg.keys.clone(),
        leveled: sc.cfg.leveled[0].clone(),
    });
    let n = sc.threads.len();
    let sched = Arc::new(Sched::new(n, prefix.to_vec(), inner_of(d.t()).clone()));
    let mut handles = vec![];
    for (tid, steps) in sc.threads.iter().enumerate() {
        let (sh, sched, steps) = (sh.clone(), sched.clone(), steps.clone());
        handles.push(std::thread::spawn(move || {
            vh::register_thread(sched.clone(), tid);
            sched.before(tid, Pending::Point("start"));
            let r = std::panic::catch_unwind(std::panic::AssertUnwindSafe(|| {
                for st in &steps {
                    run_step(&sh, st, tid);
                }
            }));
            if let Err(p) = r {
                let m = crate::hx::panic_message(&p);
                sh.errors.lock().unwrap().push((
                    format!("panic:{}", crate::hx::sanitize(&m.chars().take(60).collect::<String>())),
                    format!("thread {tid} panicked: {m}"),
                ));
            }
            vh::unregister_thread();
            sched.finish(tid);
        }));
    }
    // wait until every thread is parked at its start point, then start the run
    {
        let mut st = sched.st.lock().unwrap();
        while st.threads.iter().any(|t| *t == TState::NotStarted) {
            st = sched.cv.wait(st).unwrap();
        }
        sched.schedule_next(&mut st, None);
    }
    // watchdog
    let mut machinery = None;
    {
        let start = std::time::Instant::now();
        let mut st = sched.st.lock().unwrap();
        loop {
            if st.threads.iter().all(|t| *t == TState::Finished) {
                break;
            }
            if start.elapsed().as_secs() >= 20 {
                if st.deadlock {
                    viol.push(("deadlock".into(), format!("no thread can proceed: {:?}", st.threads)));
                } else {
                    machinery = Some(format!("execution stuck (a lock site without a scheduling point?): {:?}", st.threads));
                }
                // leak the stuck threads
                return ExecResult { decisions: st.decisions.clone(), violations: viol, machinery, steps: st.steps, outcome: 0 };
            }
            let (g, _) = sched.cv.wait_timeout(st, std::time::Duration::from_millis(50)).unwrap();
            st = g;
        }
        if st.deadlock {
            // the probe said nobody can move, yet everybody finished when released: probe and reality disagree
            machinery = Some("lock probe reported a deadlock that did not exist".into());
        }
        if let Some(dv) = &st.diverged {
            machinery = Some(format!("schedule diverged while replaying a prefix: {dv}"));
        }
    }
    for h in handles {
        let _ = h.join();
    }
    if prof {
        eprintln!("threads done {:?}", t0.elapsed());
    }
    let (decisions, steps) = {
        let st = sched.st.lock().unwrap();
        (st.decisions.clone(), st.steps)
    };

    // ---- oracle
    let delayed = sh.delayed_insert.load(Ordering::SeqCst);
    let tag = |s: &str| if delayed { format!("{s}+delayed-insert") } else { s.to_string() };
    for (sig, msg) in sh.errors.lock().unwrap().iter() {
        viol.push((sig.clone(), msg.clone()));
    }
    let wlog = sh.wlog.lock().unwrap().clone();
    for (s, gets, scan) in sh.reads.lock().unwrap().iter() {
        for (k, got) in gets {
            let want = expect_at(&pre_model, &wlog, k, *s);
            if *got != want {
                viol.push((
                    tag("stale-or-lost-read"),
                    format!("get({:?}) at published snapshot {s} returned {:?}, model says {:?} (writer log {:?})", String::from_utf8_lossy(k), got, want, wlog.iter().map(|w| (String::from_utf8_lossy(&w.0).into_owned(), w.1, w.3)).collect::<Vec<_>>()),
                ));
            }
        }
        let mut want_scan = vec![];
        for k in &sh.keys {
            if let Some(v) = expect_at(&pre_model, &wlog, k, *s) {
                want_scan.push((k.clone(), v));
            }
        }
        if *scan != want_scan {
            viol.push((tag("scan-mismatch"), format!("scan at published snapshot {s} returned {scan:?}, model says {want_scan:?}")));
        }
    }
    // after all threads finished: every acknowledged write is present
    let t = &sh.tree;
    for k in &sh.keys {
        let want = expect_at(&pre_model, &wlog, k, SeqNo::MAX);
        let got = t.get(k, SeqNo::MAX).map(|o| o.map(|v| v.to_vec())).map_err(|e| format!("{e:?}"));
        if got != Ok(want.clone()) {
            viol.push((tag("final-read"), format!("after all threads finished get({:?}) = {got:?}, model says {want:?}", String::from_utf8_lossy(k))));
        }
        // and at the last published snapshot
        let s = sh.published.load(Ordering::SeqCst);
        let want = expect_at(&pre_model, &wlog, k, s);
        let got = t.get(k, s).map(|o| o.map(|v| v.to_vec())).map_err(|e| format!("{e:?}"));
        if got != Ok(want.clone()) {
            viol.push((tag("final-read-at-published"), format!("after all threads finished get({:?}, {s}) = {got:?}, model says {want:?}", String::from_utf8_lossy(k))));
        }
    }
    let hidden = vh::hidden_tables(inner_of(t));
    if !hidden.is_empty() {
        viol.push(("hidden-set-not-empty".into(), format!("tables {hidden:?} are still hidden after all threads finished")));
    }
    // structural audit of every version still in the history
    {
        let hist = vh::history(inner_of(t));
        let mut out = vec![];
        let last_id = hist.last().map(|x| x.version.id);
        for sv in &hist {
            crate::oracles::audit_version(dir, &sv.version, Some(sv.version.id) == last_id, &mut out);
        }
        for v in out {
            viol.push((format!("C07:{}", v.sig), v.msg));
        }
    }
    if prof {
        eprintln!("oracle a-e {:?}", t0.elapsed());
    }
    // flushed set: which writes (preload and writer) are in the tables of the final version
    let mut all_writes: Vec<(Vec<u8>, u8, Vec<u8>, u64)> = pre_model
        .writes
        .iter()
        .map(|w| (w.key.clone(), u8::from(w.kind != crate::model::Kind::Put), w.value.clone(), w.seqno))
        .collect();
    all_writes.extend(wlog.iter().cloned());
    let mut in_tables: std::collections::BTreeSet<(Vec<u8>, u64)> = Default::default();
    {
        let hist = vh::history(inner_of(t));
        let cur = &hist.last().unwrap().version;
        for ti in cur.levels.iter().flatten().flatten() {
            if let Ok(items) = crate::oracles::table_items(&ti.table) {
                for it in items {
                    in_tables.insert((it.key, it.seqno));
                }
            }
        }
    }
    let flushed: Vec<usize> = (0..all_writes.len()).filter(|i| in_tables.contains(&(all_writes[*i].0.clone(), all_writes[*i].3))).collect();
    let outcome = {
        use std::hash::{Hash, Hasher};
        let mut h = std::collections::hash_map::DefaultHasher::new();
        flushed.hash(&mut h);
        for r in sh.reads.lock().unwrap().iter() {
            r.1.hash(&mut h);
        }
        h.finish()
    };
    // reopen: the tree must come back as exactly what had been flushed
    let keys = sh.keys.clone();
    drop(sh);
    drop(sched);
    d.tree = None;
    match crate::corrupt::DriverLite::open(&sc.cfg, dir) {
        Err(e) => viol.push(("reopen-failed".into(), format!("the tree does not reopen after all threads finished: {e}"))),
        Ok(mut dl) => {
            let t2 = dl.tree.take().unwrap();
            for k in &keys {
                // keys a drop_range scenario touches are unconstrained
                if sc.threads.iter().flatten().any(|s| matches!(s, Step::DropRange { k: dk } if keys[*dk as usize] == *k)) {
                    continue;
                }
                let newest = flushed.iter().map(|i| &all_writes[*i]).filter(|w| w.0 == *k).max_by_key(|w| w.3);
                let want = match newest {
                    Some((_, 0, v, _)) => Some(v.clone()),
                    _ => None,
                };
                let got = t2.get(k, SeqNo::MAX).map(|o| o.map(|v| v.to_vec())).map_err(|e| format!("{e:?}"));
                if got != Ok(want.clone()) {
                    viol.push((tag("reopen-read"), format!("after reopen get({:?}) = {got:?} but the flushed state says {want:?}", String::from_utf8_lossy(k))));
                }
            }
        }
    }
    if prof {
        eprintln!("end {:?}", t0.elapsed());
    }
    ExecResult { decisions, violations: viol, machinery, steps, outcome }
}

pub fn scenarios(tier: &str) -> Vec<Scenario> {
    use crate::ops::{Op, Wm};
    let quick = tier == "quick";
    let cfg = TreeCfg::small(crate::driver::keys_ab());
    let fl = Op::Flush { w: Wm::Zero };
    // preload: several versions per key, a tombstone, two levels, several history entries
    let preload = vec![
        Op::MultiPut { ks: vec![0, 1] },
        fl.clone(),
        Op::Leveled { w: Wm::Zero, p: 0 },
        Op::Put { k: 0, big: false },
        Op::Del { k: 1 },
        fl.clone(),
        Op::Put { k: 1, big: false },
    ];
    let w3 = vec![Step::Put { k: 0 }, Step::Put { k: 1 }, Step::Del { k: 0 }];
    let w2 = vec![Step::Put { k: 0 }, Step::Put { k: 1 }];
    // preload for the pull-down scenario: data in L2, two runs in L0
    let preload_pd = vec![
        Op::MultiPut { ks: vec![0, 1] },
        fl.clone(),
        Op::MoveDown { from: 0, to: 2, w: Wm::Zero },
        Op::Put { k: 0, big: false },
        fl.clone(),
        Op::Put { k: 1, big: false },
        fl.clone(),
    ];
    let mut v = vec![
        Scenario {
            // a rotation by another thread lands between the flusher's two critical sections
            name: "S1-writer-flusher-rotator-reader".into(),
            cfg: cfg.clone(),
            preload: preload.clone(),
            threads: vec![w2.clone(), vec![Step::RotateFlush { safe_wm: true }], vec![Step::Rotate], vec![Step::Read]],
            writer: 0,
        },
        Scenario {
            name: "S2-writer-flusher-compactor-reader".into(),
            cfg: cfg.clone(),
            preload: preload.clone(),
            threads: vec![w2.clone(), vec![Step::RotateFlush { safe_wm: true }], vec![Step::Leveled { safe_wm: true }], vec![Step::Read]],
            writer: 0,
        },
        Scenario {
            // two merges over overlapping inputs: the second must be declined while the first hides its tables
            name: "S8-pulldown-flush-pulldown-reader".into(),
            cfg: cfg.clone(),
            preload: preload_pd.clone(),
            threads: vec![vec![Step::Put { k: 0 }, Step::RotateFlush { safe_wm: false }], vec![Step::PullDown { from: 0, to: 2 }], vec![Step::PullDown { from: 0, to: 2 }], vec![Step::Read]],
            writer: 0,
        },
        Scenario {
            // three compactions in flight: the second one (disjoint inputs in L4) starts while the first
            // holds the L0 tables hidden; the third asks for the first one's inputs again and must be
            // declined for as long as the first is running
            name: "S9-three-compactions-flush-reader".into(),
            cfg: cfg.clone(),
            preload: vec![
                Op::Put { k: 1, big: false },
                fl.clone(),
                Op::MoveDown { from: 0, to: 4, w: Wm::Zero },
                Op::Put { k: 0, big: false },
                fl.clone(),
                Op::Put { k: 0, big: false },
                fl.clone(),
            ],
            threads: vec![
                vec![Step::Put { k: 0 }, Step::RotateFlush { safe_wm: false }],
                vec![Step::PullDown { from: 0, to: 2 }],
                vec![Step::PullDown { from: 4, to: 5 }],
                vec![Step::PullDown { from: 0, to: 2 }],
                vec![Step::Read],
            ],
            writer: 0,
        },
        Scenario {
            name: "S4-writer-flusher-major-reader".into(),
            cfg: cfg.clone(),
            preload: preload.clone(),
            threads: vec![w2.clone(), vec![Step::RotateFlush { safe_wm: false }], vec![Step::Major { safe_wm: true }], vec![Step::Read]],
            writer: 0,
        },
    ];
    if !quick {
        v.push(Scenario {
            name: "S1b-writer-flusher-reader".into(),
            cfg: cfg.clone(),
            preload: preload.clone(),
            threads: vec![w3.clone(), vec![Step::RotateFlush { safe_wm: true }, Step::RotateFlush { safe_wm: false }], vec![Step::Read, Step::Read]],
            writer: 0,
        });
    }
    if !quick {
        v.push(Scenario {
            name: "S3-two-compactors-flusher-reader".into(),
            cfg: cfg.clone(),
            preload: {
                let mut p = preload.clone();
                p.push(fl.clone());
                p.push(Op::Put { k: 0, big: false });
                p
            },
            threads: vec![vec![Step::Put { k: 1 }], vec![Step::Leveled { safe_wm: true }], vec![Step::Leveled { safe_wm: false }, Step::Leveled { safe_wm: false }], vec![Step::RotateFlush { safe_wm: true }], vec![Step::Read]],
            writer: 0,
        });
        v.push(Scenario {
            name: "S5-writer-compactor-droprange-reader".into(),
            cfg: cfg.clone(),
            preload: preload.clone(),
            threads: vec![vec![Step::Put { k: 0 }], vec![Step::Leveled { safe_wm: true }], vec![Step::DropRange { k: 1 }], vec![Step::Read]],
            writer: 0,
        });
        // key-value separated tree (every value is a blob; every stale blob file is rewritten at once):
        // a relocating major compaction and a flush run while the reader resolves blob pointers at a
        // published snapshot
        let mut cb = TreeCfg::small(crate::driver::keys_ab()).with_blob(1);
        if let Some(b) = &mut cb.blob {
            b.staleness = 0.0;
            b.age_cutoff = 1.0;
        }
        cb.cache_bytes = 0;
        v.push(Scenario {
            name: "S10-blob-writer-flusher-major-reader".into(),
            cfg: cb,
            preload: vec![
                Op::MultiPut { ks: vec![0, 1] },
                fl.clone(),
                Op::Put { k: 0, big: false },
                fl.clone(),
                Op::Put { k: 1, big: false },
            ],
            threads: vec![w2.clone(), vec![Step::RotateFlush { safe_wm: false }], vec![Step::Major { safe_wm: true }], vec![Step::Read, Step::Read]],
            writer: 0,
        });
        v.push(Scenario {
            name: "S7-writer-rotator-flusher-reader".into(),
            cfg: cfg.clone(),
            preload: preload.clone(),
            threads: vec![w2.clone(), vec![Step::Rotate, Step::Rotate], vec![Step::RotateFlush { safe_wm: true }], vec![Step::Read, Step::Read]],
            writer: 0,
        });
    }
    v
}

pub struct Outcome {
    pub executions: u64,
    pub decisions_total: u64,
    pub steps_total: u64,
    pub outcomes: u64,
    pub found: Vec<SchedReplay>,
    pub machinery: Vec<String>,
    pub capped: bool,
    pub bound_completed: BTreeMap<String, i64>,
    pub per_scenario: Vec<serde_json::Value>,
    pub samples: Vec<serde_json::Value>,
    pub wall_s: f64,
}

fn preemptions(decs: &[Decision], upto: usize) -> usize {
    decs[..upto]
        .iter()
        .filter(|d| d.running.is_some() && Some(d.enabled[d.chosen]) != d.running)
        .count()
}

pub fn run(tier: &str, threads: usize, max_wall_s: f64) -> Outcome {
    let mut scs = scenarios(tier);
    if let Ok(only) = std::env::var("VERIF_ONLY") {
        // debugging aid: run only the scenarios whose name contains the given text
        scs.retain(|s| s.name.contains(&only));
    }
    run_scenarios(tier, threads, max_wall_s, scs, "C06")
}

/// C18's concurrent part: the high-water marks while a flush moves data from memtable to table.
pub fn scenarios_c18() -> Vec<Scenario> {
    use crate::ops::{Op, Wm};
    let cfg = TreeCfg::small(crate::driver::keys_ab());
    vec![Scenario {
        name: "C18-writer-flusher-seqno-reader".into(),
        cfg,
        preload: vec![Op::MultiPut { ks: vec![0, 1] }, Op::Flush { w: Wm::Zero }, Op::Put { k: 0, big: false }],
        threads: vec![vec![Step::Put { k: 1 }], vec![Step::RotateFlush { safe_wm: false }], vec![Step::ReadSeqnos, Step::ReadSeqnos]],
        writer: 0,
    }]
}

pub fn run_scenarios(tier: &str, threads: usize, max_wall_s: f64, scs: Vec<Scenario>, property: &str) -> Outcome {
    let start = std::time::Instant::now();
    let max_bound: usize = if tier == "quick" { 2 } else { 3 };
    // every execution already runs 3-5 OS threads that hand a token around; measured throughput
    // peaks at 4-5 concurrent executions on 16 cores and falls beyond that
    let threads = threads.min(5);
    let root = crate::hx::scratch_root().join("sched");
    crate::hx::fresh_dir(&root);
    let n_sc = scs.len();
    let mut out = Outcome {
        executions: 0,
        decisions_total: 0,
        steps_total: 0,
        outcomes: 0,
        found: vec![],
        machinery: vec![],
        capped: false,
        bound_completed: BTreeMap::new(),
        per_scenario: vec![],
        samples: vec![],
        wall_s: 0.0,
    };
    for (sci, sc) in scs.into_iter().enumerate() {
        let sc = Arc::new(sc);
        let budget_end = start.elapsed().as_secs_f64() + (max_wall_s - start.elapsed().as_secs_f64()).max(1.0) / (n_sc - sci) as f64;
        let mut completed: i64 = -1;
        let mut sc_execs = 0u64;
        let outcomes: Arc<Mutex<std::collections::HashSet<u64>>> = Arc::new(Mutex::new(Default::default()));
        // iterative context bounding: explore bound 0, then 1, ... (each bound explores only schedules with exactly that many preemptions not yet seen)
        // work list of prefixes with their preemption cost
        let mut frontier: Vec<(Vec<usize>, usize)> = vec![(vec![], 0)];
        for bound in 0..=max_bound {
            let mut next_bound: Vec<(Vec<usize>, usize)> = vec![];
            let work: Arc<Mutex<Vec<(Vec<usize>, usize)>>> = Arc::new(Mutex::new(std::mem::take(&mut frontier)));
            let inflight = Arc::new(AtomicU64::new(0));
            let deferred: Arc<Mutex<Vec<(Vec<usize>, usize)>>> = Arc::new(Mutex::new(vec![]));
            let found: Arc<Mutex<Vec<SchedReplay>>> = Arc::new(Mutex::new(vec![]));
            let mach: Arc<Mutex<Vec<String>>> = Arc::new(Mutex::new(vec![]));
            let execs = Arc::new(AtomicU64::new(0));
            let decs = Arc::new(AtomicU64::new(0));
            let steps = Arc::new(AtomicU64::new(0));
            let capped = Arc::new(AtomicBool::new(false));
            let mut hs = vec![];
            for w in 0..threads {
                let (sc, work, inflight, deferred, found, mach, execs, decs, steps, capped, outcomes) =
                    (sc.clone(), work.clone(), inflight.clone(), deferred.clone(), found.clone(), mach.clone(), execs.clone(), decs.clone(), steps.clone(), capped.clone(), outcomes.clone());
                let dir = root.join(format!("w{w}"));
                let property = property.to_string();
                hs.push(std::thread::spawn(move || loop {
                    let item = {
                        let mut wl = work.lock().unwrap();
                        let it = wl.pop();
                        if it.is_some() {
                            inflight.fetch_add(1, Ordering::SeqCst);
                        }
                        it
                    };
                    let Some((prefix, _cost)) = item else {
                        if inflight.load(Ordering::SeqCst) == 0 {
                            break;
                        }
                        std::thread::sleep(std::time::Duration::from_micros(300));
                        continue;
                    };
                    if start.elapsed().as_secs_f64() > budget_end || found.lock().unwrap().len() > 50 {
                        capped.store(true, Ordering::Relaxed);
                        inflight.fetch_sub(1, Ordering::SeqCst);
                        continue;
                    }
                    let r = run_execution(&sc, &dir, &prefix);
                    execs.fetch_add(1, Ordering::Relaxed);
                    decs.fetch_add(r.decisions.len() as u64, Ordering::Relaxed);
                    steps.fetch_add(r.steps, Ordering::Relaxed);
                    outcomes.lock().unwrap().insert(r.outcome);
                    if let Some(m) = r.machinery {
                        mach.lock().unwrap().push(format!("{}: {m} (schedule {:?})", sc.name, r.decisions.iter().map(|d| d.chosen).collect::<Vec<_>>()));
                    }
                    let schedule: Vec<usize> = r.decisions.iter().map(|d| d.chosen).collect();
                    for (sig, msg) in r.violations {
                        // one replay per distinct signature (the first = fewest preemptions); repeated
                        // instances of a recorded finding must not end the exploration early
                        if found.lock().unwrap().iter().any(|f: &SchedReplay| f.sig == sig) {
                            continue;
                        }
                        found.lock().unwrap().push(SchedReplay {
                            engine: "sched".into(),
                            property: property.clone(),
                            scenario: (*sc).clone(),
                            schedule: schedule.clone(),
                            sig,
                            msg: format!("{}: {msg}", sc.name),
                        });
                    }
                    // alternatives
                    for i in prefix.len()..r.decisions.len() {
                        let d = &r.decisions[i];
                        let base = preemptions(&r.decisions, i);
                        for alt in 0..d.enabled.len() {
                            if alt == d.chosen {
                                continue;
                            }
                            let cost = base + usize::from(d.running.is_some() && Some(d.enabled[alt]) != d.running);
                            let mut p: Vec<usize> = r.decisions[..i].iter().map(|x| x.chosen).collect();
                            p.push(alt);
                            if cost <= bound {
                                work.lock().unwrap().push((p, cost));
                            } else if cost == bound + 1 {
                                deferred.lock().unwrap().push((p, cost));
                            }
                        }
                    }
                    inflight.fetch_sub(1, Ordering::SeqCst);
                }));
            }
            for h in hs {
                h.join().expect("sched worker");
            }
            out.executions += execs.load(Ordering::Relaxed);
            sc_execs += execs.load(Ordering::Relaxed);
            out.decisions_total += decs.load(Ordering::Relaxed);
            out.steps_total += steps.load(Ordering::Relaxed);
            out.found.extend(found.lock().unwrap().drain(..));
            out.machinery.extend(mach.lock().unwrap().drain(..));
            next_bound.extend(deferred.lock().unwrap().drain(..));
            if capped.load(Ordering::Relaxed) {
                out.capped = true;
                break;
            }
            completed = bound as i64;
            frontier = next_bound;
            if frontier.is_empty() {
                completed = max_bound as i64; // nothing left at any higher bound
                break;
            }
        }
        out.bound_completed.insert(sc.name.clone(), completed);
        let n_out = outcomes.lock().unwrap().len() as u64;
        out.outcomes += n_out;
        out.per_scenario.push(serde_json::json!({
            "scenario": sc.name, "threads": sc.threads.len(), "executions": sc_execs,
            "preemption_bound_completed": completed, "distinct_outcomes": n_out,
        }));
        if out.samples.len() < 3 {
            out.samples.push(serde_json::json!({"scenario": sc.name, "threads": sc.threads, "preload": crate::ops::short_hist(&sc.preload)}));
        }
    }
    let _ = std::fs::remove_dir_all(&root);
    out.wall_s = start.elapsed().as_secs_f64();
    out
}

pub fn replay(rp: &SchedReplay) -> Vec<(String, String)> {
    let root = crate::hx::scratch_root().join("sched-replay");
    crate::hx::fresh_dir(&root);
    let r = run_execution(&rp.scenario, &root, &rp.schedule);
    let _ = std::fs::remove_dir_all(&root);
    let mut v = r.violations;
    if let Some(m) = r.machinery {
        v.push(("MACHINERY".into(), m));
    }
    v
}
