//! C11: the same histories under every physical configuration, and trees with coinciding table
//! ids sharing one block cache / descriptor table: logical results must not change.

use crate::driver::{Driver, FilterKind, Shared, TreeCfg};
use crate::ops::{IKind, Op, Wm};
use crate::oracles::{self, ReadOpts};
use lsm_tree::{AbstractTree, Cache, DescriptorTable, Guard, SeqNo};
use serde::{Deserialize, Serialize};
use std::path::Path;
use std::sync::atomic::{AtomicBool, AtomicU64, Ordering};
use std::sync::{Arc, Mutex};

#[derive(Clone, Debug, Serialize, Deserialize)]
pub struct Hist {
    pub name: String,
    pub keys: Vec<Vec<u8>>,
    pub ops: Vec<Op>,
    pub blob: bool,
}

pub fn histories(tier: &str) -> Vec<Hist> {
    let k3 = crate::driver::keys_abc();
    let fl = Op::Flush { w: Wm::Zero };
    let mut v = vec![
        Hist {
            name: "two-l0-tables-snapshots".into(),
            keys: k3.clone(),
            ops: vec![Op::MultiPut { ks: vec![0, 1, 2] }, fl.clone(), Op::Snap, Op::Put { k: 0, big: false }, Op::Del { k: 1 }, fl.clone(), Op::Snap, Op::Put { k: 2, big: false }],
            blob: false,
        },
        Hist {
            name: "levels-and-memtables".into(),
            keys: k3.clone(),
            ops: vec![
                Op::MultiPut { ks: vec![0, 1, 2] },
                fl.clone(),
                Op::Major { w: Wm::Zero, target: 1 },
                Op::MultiPut { ks: vec![1, 2] },
                fl.clone(),
                Op::Leveled { w: Wm::Zero, p: 0 },
                Op::Snap,
                Op::Del { k: 2 },
                Op::Rotate,
                Op::Put { k: 0, big: false },
            ],
            blob: false,
        },
        Hist {
            name: "ingest-over-flushed".into(),
            keys: k3.clone(),
            ops: vec![Op::MultiPut { ks: vec![0, 1, 2] }, fl.clone(), Op::Snap, Op::Ingest { items: vec![(0, IKind::Val), (1, IKind::Tomb)] }, Op::Put { k: 1, big: false }, Op::Reopen],
            blob: false,
        },
        Hist {
            name: "blob-overwrites".into(),
            keys: k3.clone(),
            ops: vec![Op::Put { k: 0, big: true }, Op::Put { k: 1, big: false }, fl.clone(), Op::Snap, Op::Put { k: 0, big: true }, Op::Put { k: 2, big: true }, fl.clone(), Op::Major { w: Wm::Zero, target: u64::MAX }],
            blob: true,
        },
    ];
    // bulk: hundreds of tiny entries per block (many restart points, real hash index / filter use)
    let n = if tier == "quick" { 400 } else { 700 };
    let keys: Vec<Vec<u8>> = (0..n).map(|i| format!("k{i:04}").into_bytes()).collect();
    let all: Vec<u8> = vec![]; // filled through MultiPutRange below
    let _ = all;
    v.push(Hist {
        name: "bulk".into(),
        keys,
        ops: vec![
            Op::Seq { ops: (0..n).step_by(1).map(|i| Op::PutIdx { k: i as u32 }).collect() },
            fl.clone(),
            Op::Snap,
            Op::Seq { ops: (0..n).step_by(3).map(|i| Op::PutIdx { k: i as u32 }).collect() },
            Op::Seq { ops: (0..n).step_by(7).map(|i| Op::DelIdx { k: i as u32 }).collect() },
            fl.clone(),
        ],
        blob: false,
    });
    v.push(Hist {
        name: "bulk-compacted".into(),
        keys: (0..n).map(|i| format!("k{i:04}").into_bytes()).collect(),
        ops: vec![
            Op::Seq { ops: (0..n).map(|i| Op::PutIdx { k: i as u32 }).collect() },
            fl.clone(),
            Op::Seq { ops: (0..n).step_by(2).map(|i| Op::PutIdx { k: i as u32 }).collect() },
            fl.clone(),
            Op::Major { w: Wm::Zero, target: 2048 },
            Op::Snap,
            Op::Seq { ops: (0..n).step_by(5).map(|i| Op::DelIdx { k: i as u32 }).collect() },
        ],
        blob: false,
    });
    v
}

#[derive(Clone, Copy, Debug, PartialEq, Serialize, Deserialize)]
pub struct Dims {
    pub block_size: u32,
    pub restart: u8,
    pub hash_ratio: f32,
    pub index_part: bool,
    pub filter_part: bool,
    pub pin_index: bool,
    pub pin_filter: bool,
    pub filter: u8, // 0 none, 1 bloom 10 bits, 2 fpr 0.01
    pub expect_hits: bool,
    pub cache: u64,
    pub fdt: u8, // 0 none, 1 capacity 1, 2 capacity 256
    #[serde(default)]
    pub lz4: bool,
}

pub fn default_dims() -> Dims {
    Dims {
        block_size: 4096,
        restart: 16,
        hash_ratio: 0.0,
        index_part: false,
        filter_part: false,
        pin_index: true,
        pin_filter: true,
        filter: 1,
        expect_hits: false,
        cache: 16 << 20,
        fdt: 2,
        lz4: false,
    }
}

pub fn all_dims() -> Vec<Dims> {
    let mut v = vec![];
    for block_size in [1u32, 64, 4096] {
        for restart in [1u8, 2, 16] {
            for hash_ratio in [0.0f32, 8.0] {
                for index_part in [false, true] {
                    for filter_part in [false, true] {
                        for pin_index in [false, true] {
                            for pin_filter in [false, true] {
                                for filter in [0u8, 1, 2] {
                                    for expect_hits in [false, true] {
                                        for cache in [0u64, 16 << 20] {
                                            for fdt in [0u8, 1, 2] {
                                                for lz4 in [false, true] {
                                                    v.push(Dims { block_size, restart, hash_ratio, index_part, filter_part, pin_index, pin_filter, filter, expect_hits, cache, fdt, lz4 });
                                                }
                                            }
                                        }
                                    }
                                }
                            }
                        }
                    }
                }
            }
        }
    }
    v
}

pub fn distance(a: &Dims, b: &Dims) -> usize {
    usize::from(a.block_size != b.block_size)
        + usize::from(a.restart != b.restart)
        + usize::from(a.hash_ratio != b.hash_ratio)
        + usize::from(a.index_part != b.index_part)
        + usize::from(a.filter_part != b.filter_part)
        + usize::from(a.pin_index != b.pin_index)
        + usize::from(a.pin_filter != b.pin_filter)
        + usize::from(a.filter != b.filter)
        + usize::from(a.expect_hits != b.expect_hits)
        + usize::from(a.cache != b.cache)
        + usize::from(a.fdt != b.fdt)
        + usize::from(a.lz4 != b.lz4)
}

pub fn cfg_for(h: &Hist, d: &Dims) -> TreeCfg {
    let mut c = TreeCfg::small(h.keys.clone());
    c.block_size = d.block_size;
    c.restart_interval = d.restart;
    c.hash_ratio = d.hash_ratio;
    c.index_partitioning = d.index_part;
    c.filter_partitioning = d.filter_part;
    c.pin_index = d.pin_index;
    c.pin_filter = d.pin_filter;
    c.filter = match d.filter {
        0 => FilterKind::None,
        1 => FilterKind::Bits(10.0),
        _ => FilterKind::Fpr(0.01),
    };
    c.expect_point_read_hits = d.expect_hits;
    c.cache_bytes = d.cache;
    c.fd_table = match d.fdt {
        0 => None,
        1 => Some(1),
        _ => Some(256),
    };
    c.lz4 = d.lz4;
    if h.blob {
        c = c.with_blob(16);
    }
    c
}

/// Every logical answer of the tree as strings (values only, so that runs can be compared).
pub fn answers(d: &Driver) -> Result<Vec<String>, String> {
    let t = d.t();
    let mut out = vec![];
    let mut ss: Vec<SeqNo> = d.snaps.clone();
    ss.push(d.visible.get());
    ss.push(SeqNo::MAX);
    let e = |x: lsm_tree::Error| format!("{x:?}");
    let mut keys = d.cfg.keys.clone();
    keys.push(oracles::absent_key());
    for (si, s) in ss.iter().enumerate() {
        for k in &keys {
            out.push(format!("get {k:?}@{si} = {:?}", t.get(k, *s).map_err(e)?.map(|v| v.to_vec())));
            out.push(format!("contains {k:?}@{si} = {:?}", t.contains_key(k, *s).map_err(e)?));
            out.push(format!("size_of {k:?}@{si} = {:?}", t.size_of(k, *s).map_err(e)?));
        }
        let mut fw = vec![];
        for g in t.iter(*s, None) {
            let (k, v) = g.into_inner().map_err(e)?;
            fw.push((k.to_vec(), v.to_vec()));
        }
        out.push(format!("scan@{si} = {fw:?}"));
        let mut bw = vec![];
        for g in t.iter(*s, None).rev() {
            let (k, v) = g.into_inner().map_err(e)?;
            bw.push((k.to_vec(), v.to_vec()));
        }
        out.push(format!("scan_rev@{si} = {bw:?}"));
        // both ends of one iterator: strictly alternating, and a few from one end before the other
        for (name, lead_front, lead_back) in [("pingpong", 0usize, 0usize), ("front3-then-back", 3, 0), ("back3-then-front", 0, 3)] {
            let mut it = t.iter(*s, None);
            let mut seq: Vec<(bool, Vec<u8>, Vec<u8>)> = vec![];
            let mut done = false;
            for _ in 0..lead_front {
                match it.next() {
                    Some(g) => {
                        let (k, v) = g.into_inner().map_err(e)?;
                        seq.push((true, k.to_vec(), v.to_vec()));
                    }
                    None => done = true,
                }
            }
            for _ in 0..lead_back {
                match it.next_back() {
                    Some(g) => {
                        let (k, v) = g.into_inner().map_err(e)?;
                        seq.push((false, k.to_vec(), v.to_vec()));
                    }
                    None => done = true,
                }
            }
            let mut front = lead_back > 0 || lead_front == 0;
            while !done {
                let g = if name == "pingpong" {
                    front = !front;
                    if front { it.next() } else { it.next_back() }
                } else if lead_front > 0 {
                    it.next_back()
                } else {
                    it.next()
                };
                match g {
                    Some(g) => {
                        let (k, v) = g.into_inner().map_err(e)?;
                        seq.push((front, k.to_vec(), v.to_vec()));
                    }
                    None => done = true,
                }
            }
            out.push(format!("{name}@{si} = {seq:?}"));
        }
        out.push(format!("len@{si} = {}", t.len(*s, None).map_err(e)?));
        let mid = d.cfg.keys[d.cfg.keys.len() / 2].clone();
        let mut sub = vec![];
        for g in t.range::<Vec<u8>, _>(mid.clone().., *s, None) {
            sub.push(g.key().map_err(e)?.to_vec());
        }
        out.push(format!("range[mid..]@{si} = {sub:?}"));
        let mut pre = vec![];
        for g in t.prefix(&mid[..mid.len() - 1], *s, None) {
            pre.push(g.key().map_err(e)?.to_vec());
        }
        out.push(format!("prefix@{si} = {}", pre.len()));
    }
    Ok(out)
}

#[derive(Clone, Debug, Serialize, Deserialize)]
pub struct CfgReplay {
    pub engine: String,
    pub property: String,
    pub hist: Hist,
    pub dims: Option<Dims>,
    pub sharing: Option<(u64, u8, usize)>,
    pub sig: String,
    pub msg: String,
}

/// Runs one history under one configuration: model agreement + answers.
pub fn run_one(h: &Hist, dims: &Dims, dir: &Path) -> Result<Vec<String>, (String, String)> {
    crate::hx::fresh_dir(dir);
    let cfg = cfg_for(h, dims);
    let res = std::panic::catch_unwind(std::panic::AssertUnwindSafe(|| -> Result<Vec<String>, (String, String)> {
        let mut d = Driver::new(dir, cfg).map_err(|e| ("open-err".to_string(), e))?;
        for op in &h.ops {
            let info = d.apply(op);
            if let Some(e) = info.err {
                return Err((format!("op-err:{}", op.name()), format!("{} failed: {e}", op.name())));
            }
        }
        // cold and warm
        let mut viol = vec![];
        for _ in 0..2 {
            oracles::check_reads(&d, ReadOpts { point: true, scans: true, at_latest: true, at_snaps: true, internal: false }, &mut viol);
        }
        if let Some(v) = viol.first() {
            return Err((v.sig.clone(), v.msg.clone()));
        }
        answers(&d).map_err(|e| ("read-err".to_string(), e))
    }));
    match res {
        Ok(r) => r,
        Err(p) => {
            let m = crate::hx::panic_message(&p);
            Err((format!("panic:{}", crate::hx::sanitize(&m.chars().take(60).collect::<String>())), m))
        }
    }
}

/// Several trees (different directories, same history, different values) sharing one cache and one
/// descriptor table; reads are interleaved tree by tree. `n` trees; fdt: 0 none, 1 capacity 1, 2 capacity 256.
pub fn run_sharing(h: &Hist, cache_bytes: u64, fdt: u8, n: usize, root: &Path) -> Result<(), (String, String)> {
    crate::hx::fresh_dir(root);
    let res = std::panic::catch_unwind(std::panic::AssertUnwindSafe(|| -> Result<(), (String, String)> {
        let shared = Shared {
            cache: Some(Arc::new(Cache::with_capacity_bytes(cache_bytes))),
            fd_table: Some(match fdt {
                0 => None,
                1 => Some(Arc::new(DescriptorTable::new(1))),
                _ => Some(Arc::new(DescriptorTable::new(256))),
            }),
        };
        let mut ds = vec![];
        for i in 0..n {
            let mut cfg = cfg_for(h, &default_dims());
            cfg.pin_index = false;
            cfg.pin_filter = false;
            let mut d = Driver::new_shared(&root.join(format!("t{i}")), cfg, shared.clone()).map_err(|e| ("open-err".to_string(), e))?;
            d.value_tag = [b'v', b'u', b't'][i % 3];
            ds.push(d);
        }
        // same history on every tree, op by op (so that table ids coincide)
        for op in &h.ops {
            for d in ds.iter_mut() {
                let info = d.apply(op);
                if let Some(e) = info.err {
                    return Err((format!("op-err:{}", op.name()), e));
                }
            }
        }
        // interleaved reads, twice (cold, warm), key by key across the trees
        for round in 0..2 {
            let keys = ds[0].cfg.keys.clone();
            for k in keys.iter().chain(std::iter::once(&oracles::absent_key())) {
                for (i, d) in ds.iter().enumerate() {
                    let mut ss: Vec<SeqNo> = d.snaps.clone();
                    ss.push(SeqNo::MAX);
                    for s in ss {
                        let got = oracles::get(d.t(), k, s).map_err(|e| ("get-err".to_string(), e))?;
                        let exp = d.model.read(k, s);
                        if !exp.admits(&got) {
                            return Err((
                                "shared:get-mismatch".into(),
                                format!("tree {i} of {n} sharing a cache ({cache_bytes} B) and descriptor table (mode {fdt}), round {round}: get({k:?}, {s}) = {:?}, model {exp:?}", got),
                            ));
                        }
                    }
                }
            }
            for (i, d) in ds.iter().enumerate() {
                let mut v = vec![];
                oracles::check_reads(d, ReadOpts { point: false, scans: true, at_latest: true, at_snaps: true, internal: false }, &mut v);
                if let Some(x) = v.first() {
                    return Err((format!("shared:{}", x.sig), format!("tree {i} of {n} sharing cache/descriptor table: {}", x.msg)));
                }
            }
        }
        // a second handle on the first directory while the first one is alive (recovery must not disturb it)
        {
            let cfg = ds[0].cfg.clone();
            let dir = ds[0].dir.clone();
            let lite = crate::corrupt::DriverLite::open(&cfg, &dir).map_err(|e| ("second-open-err".to_string(), e))?;
            let t2 = lite.tree.as_ref().unwrap();
            for k in &cfg.keys {
                let a = oracles::get(ds[0].t(), k, SeqNo::MAX);
                // the second handle sees only what is flushed: compare with the persisted model
                let mut pm = ds[0].model.clone();
                pm.reopen();
                let exp = pm.read(k, SeqNo::MAX);
                let b = oracles::get(t2, k, SeqNo::MAX).map_err(|e| ("second-get-err".to_string(), e))?;
                if !exp.admits(&b) {
                    return Err(("second-handle:get-mismatch".into(), format!("a second handle on the same directory reads {k:?} = {b:?}, flushed state {exp:?}")));
                }
                let exp_a = ds[0].model.read(k, SeqNo::MAX);
                match a {
                    Ok(a) if exp_a.admits(&a) => {}
                    other => return Err(("first-handle-disturbed".into(), format!("after opening a second handle the first one reads {k:?} = {other:?}, model {exp_a:?}"))),
                }
            }
        }
        Ok(())
    }));
    match res {
        Ok(r) => r,
        Err(p) => {
            let m = crate::hx::panic_message(&p);
            Err((format!("panic:{}", crate::hx::sanitize(&m.chars().take(60).collect::<String>())), m))
        }
    }
}

/// Sharing runs execute in a fresh process so that the trees get the ids 0, 1, 2 - the same
/// small numbers their table ids have (mirrored (tree, table) pairs are the collision-prone case).
pub fn share_worker_main(arg: &str) -> i32 {
    #[derive(Deserialize)]
    struct J {
        hist: Hist,
        cache: u64,
        fdt: u8,
        n: usize,
        root: String,
    }
    let j: J = match serde_json::from_str(&std::fs::read_to_string(arg).unwrap_or_default()) {
        Ok(j) => j,
        Err(e) => {
            println!("HARNESS bad job {e}");
            return 2;
        }
    };
    match run_sharing(&j.hist, j.cache, j.fdt, j.n, Path::new(&j.root)) {
        Ok(()) => println!("OK"),
        Err((sig, msg)) => println!("VIOL {}", serde_json::to_string(&(sig, msg)).unwrap()),
    }
    0
}

pub fn run_sharing_subprocess(h: &Hist, cache: u64, fdt: u8, n: usize, root: &Path) -> Result<(), (String, String)> {
    crate::hx::fresh_dir(root);
    let job = root.join("job.json");
    let trees = root.join("trees");
    std::fs::write(&job, serde_json::to_string(&serde_json::json!({"hist": h, "cache": cache, "fdt": fdt, "n": n, "root": trees.to_string_lossy()})).unwrap()).map_err(|e| ("HARNESS".to_string(), e.to_string()))?;
    let exe = std::env::current_exe().map_err(|e| ("HARNESS".to_string(), e.to_string()))?;
    let out = std::process::Command::new(exe).arg("cfgmc-share").arg(&job).output().map_err(|e| ("HARNESS".to_string(), e.to_string()))?;
    let so = String::from_utf8_lossy(&out.stdout);
    if so.lines().any(|l| l == "OK") {
        return Ok(());
    }
    if let Some(v) = so.lines().find_map(|l| l.strip_prefix("VIOL ")) {
        if let Ok((sig, msg)) = serde_json::from_str::<(String, String)>(v) {
            return Err((sig, msg));
        }
    }
    Err(("shared:worker-died".to_string(), format!("sharing run ended without a verdict (exit {:?}): {}", out.status.code(), so.chars().take(200).collect::<String>())))
}

pub struct Outcome {
    pub configs: u64,
    pub histories: u64,
    pub runs: u64,
    pub sharing_runs: u64,
    pub distinct_answer_sets: u64,
    pub found: Vec<CfgReplay>,
    pub capped: bool,
    pub samples: Vec<serde_json::Value>,
    pub wall_s: f64,
}

pub fn run(tier: &str, threads: usize, max_wall_s: f64) -> Outcome {
    let start = std::time::Instant::now();
    let quick = tier == "quick";
    let hs = histories(tier);
    let def = default_dims();
    let dims: Vec<Dims> = if quick { all_dims().into_iter().filter(|d| distance(d, &def) <= 4).collect() } else { all_dims() };
    let root = crate::hx::scratch_root().join("cfgmc");
    crate::hx::fresh_dir(&root);
    // baselines under the default configuration
    let mut baselines: Vec<Option<Vec<String>>> = vec![];
    let found: Arc<Mutex<Vec<CfgReplay>>> = Arc::new(Mutex::new(vec![]));
    for h in &hs {
        match run_one(h, &def, &root.join("base")) {
            Ok(a) => baselines.push(Some(a)),
            Err((sig, msg)) => {
                found.lock().unwrap().push(CfgReplay { engine: "cfgmc".into(), property: "C11".into(), hist: h.clone(), dims: Some(def), sharing: None, sig, msg: format!("history {} under the default configuration: {msg}", h.name) });
                baselines.push(None);
            }
        }
    }
    // work: sharing runs first (few), then (history, dims) pairs
    #[derive(Clone)]
    enum W {
        Cfg(usize, usize),
        Share(usize, u64, u8, usize),
    }
    let mut work: Vec<W> = vec![];
    for (hi, h) in hs.iter().enumerate() {
        if h.keys.len() > 10 && quick && h.name != "bulk" {
            continue;
        }
        for cache in [0u64, 4096, 16 << 20] {
            for fdt in [0u8, 1, 2] {
                for n in [2usize, 3] {
                    if quick && (n == 3 && cache == 4096) {
                        continue;
                    }
                    work.push(W::Share(hi, cache, fdt, n));
                }
            }
        }
    }
    let n_share = work.len() as u64;
    for di in 0..dims.len() {
        for hi in 0..hs.len() {
            work.push(W::Cfg(hi, di));
        }
    }
    let hs = Arc::new(hs);
    let dims = Arc::new(dims);
    let baselines = Arc::new(baselines);
    let work = Arc::new(work);
    let next = Arc::new(AtomicU64::new(0));
    let runs = Arc::new(AtomicU64::new(0));
    let capped = Arc::new(AtomicBool::new(false));
    let mut handles = vec![];
    for w in 0..threads {
        let (hs, dims, baselines, work, next, runs, capped, found) = (hs.clone(), dims.clone(), baselines.clone(), work.clone(), next.clone(), runs.clone(), capped.clone(), found.clone());
        let dir = root.join(format!("w{w}"));
        handles.push(std::thread::spawn(move || loop {
            let i = next.fetch_add(1, Ordering::Relaxed) as usize;
            if i >= work.len() {
                break;
            }
            if start.elapsed().as_secs_f64() > max_wall_s || found.lock().unwrap().len() > 100 {
                capped.store(true, Ordering::Relaxed);
                break;
            }
            runs.fetch_add(1, Ordering::Relaxed);
            match &work[i] {
                W::Share(hi, cache, fdt, n) => {
                    if let Err((sig, msg)) = run_sharing_subprocess(&hs[*hi], *cache, *fdt, *n, &dir) {
                        found.lock().unwrap().push(CfgReplay { engine: "cfgmc".into(), property: "C11".into(), hist: hs[*hi].clone(), dims: None, sharing: Some((*cache, *fdt, *n)), sig, msg: format!("history {}: {msg}", hs[*hi].name) });
                    }
                }
                W::Cfg(hi, di) => {
                    let h = &hs[*hi];
                    let d = &dims[*di];
                    match run_one(h, d, &dir) {
                        Err((sig, msg)) => {
                            found.lock().unwrap().push(CfgReplay { engine: "cfgmc".into(), property: "C11".into(), hist: h.clone(), dims: Some(*d), sharing: None, sig, msg: format!("history {} under {d:?}: {msg}", h.name) });
                        }
                        Ok(a) => {
                            if let Some(b) = &baselines[*hi] {
                                if *b != a {
                                    found.lock().unwrap().push(CfgReplay {
                                        engine: "cfgmc".into(),
                                        property: "C11".into(),
                                        hist: h.clone(),
                                        dims: Some(*d),
                                        sharing: None,
                                        sig: "config-changes-answers".into(),
                                        msg: format!("history {} under {d:?} answers differently from the default configuration: {}", h.name, crate::fsx::diff_lines(b, &a)),
                                    });
                                }
                            }
                        }
                    }
                }
            }
        }));
    }
    for h in handles {
        h.join().expect("cfgmc worker");
    }
    let _ = std::fs::remove_dir_all(&root);
    let found = found.lock().unwrap().clone();
    let samples = vec![
        serde_json::json!({"history": hs[0].name, "ops": crate::ops::short_hist(&hs[0].ops), "config": dims.get(dims.len() / 2)}),
        serde_json::json!({"sharing": "2 and 3 trees in different directories (coinciding table ids) x cache {0, 4 KiB, 16 MiB} x descriptor table {none, capacity 1, 256}"}),
    ];
    Outcome {
        configs: dims.len() as u64,
        histories: hs.len() as u64,
        runs: runs.load(Ordering::Relaxed),
        sharing_runs: n_share,
        distinct_answer_sets: baselines.iter().flatten().count() as u64,
        found,
        capped: capped.load(Ordering::Relaxed),
        samples,
        wall_s: start.elapsed().as_secs_f64(),
    }
}

pub fn replay(rp: &CfgReplay) -> Vec<(String, String)> {
    let root = crate::hx::scratch_root().join("cfgmc-replay");
    crate::hx::fresh_dir(&root);
    let mut out = vec![];
    if let Some((cache, fdt, n)) = rp.sharing {
        if let Err(e) = run_sharing_subprocess(&rp.hist, cache, fdt, n, &root) {
            out.push(e);
        }
    } else if let Some(d) = rp.dims {
        match run_one(&rp.hist, &d, &root.join("x")) {
            Err(e) => out.push(e),
            Ok(a) => {
                if let Ok(b) = run_one(&rp.hist, &default_dims(), &root.join("base")) {
                    if a != b {
                        out.push(("config-changes-answers".into(), crate::fsx::diff_lines(&b, &a)));
                    }
                }
            }
        }
    }
    let _ = std::fs::remove_dir_all(&root);
    out
}
