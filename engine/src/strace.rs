//! Running a command under strace and parsing the log (the crate has no file-system seam, and
//! tempfile/rustix issue raw syscalls, so the syscall boundary is the only complete vantage point).

use std::path::Path;
use std::process::Command;

pub const TRACE_SET: &str = "openat,open,creat,write,pwrite64,writev,fsync,fdatasync,rename,renameat,renameat2,unlink,unlinkat,mkdir,mkdirat,rmdir,ftruncate,truncate,close,lseek,link,linkat,symlink,symlinkat,read,pread64,statx,newfstatat,getdents64,fstat";

#[derive(Clone, Debug)]
pub struct Rec {
    pub pid: u32,
    pub name: String,
    pub args: Vec<Arg>,
    /// return value (negative = -errno is not given by strace; `err` holds the errno name)
    pub ret: i64,
    pub err: Option<String>,
}

#[derive(Clone, Debug, PartialEq)]
pub enum Arg {
    Str(Vec<u8>),
    Raw(String),
}

impl Arg {
    pub fn as_bytes(&self) -> Option<&[u8]> {
        match self {
            Arg::Str(b) => Some(b),
            Arg::Raw(_) => None,
        }
    }
    pub fn as_raw(&self) -> &str {
        match self {
            Arg::Raw(s) => s,
            Arg::Str(_) => "",
        }
    }
    pub fn as_i64(&self) -> Option<i64> {
        match self {
            Arg::Raw(s) => s.trim().parse().ok(),
            Arg::Str(_) => None,
        }
    }
}

fn decode_str(s: &str) -> Vec<u8> {
    // content between the quotes, strace -xx style: \xNN for every byte (plus possibly plain chars)
    let b = s.as_bytes();
    let mut out = Vec::with_capacity(b.len() / 4);
    let mut i = 0;
    while i < b.len() {
        if b[i] == b'\\' && i + 3 < b.len() && b[i + 1] == b'x' {
            let h = u8::from_str_radix(&s[i + 2..i + 4], 16).unwrap_or(b'?');
            out.push(h);
            i += 4;
        } else if b[i] == b'\\' && i + 1 < b.len() {
            out.push(match b[i + 1] {
                b'n' => b'\n',
                b't' => b'\t',
                b'r' => b'\r',
                b'0' => 0,
                c => c,
            });
            i += 2;
        } else {
            out.push(b[i]);
            i += 1;
        }
    }
    out
}

fn split_args(s: &str) -> Vec<Arg> {
    let mut out = vec![];
    let b = s.as_bytes();
    let mut i = 0;
    let mut cur = String::new();
    let mut depth = 0i32;
    while i < b.len() {
        let c = b[i];
        if c == b'"' {
            // quoted string
            let start = i + 1;
            let mut j = start;
            while j < b.len() {
                if b[j] == b'\\' {
                    j += 2;
                    continue;
                }
                if b[j] == b'"' {
                    break;
                }
                j += 1;
            }
            let content = &s[start..j.min(b.len())];
            // a trailing "..." marks a truncated string
            out.push(Arg::Str(decode_str(content)));
            i = j + 1;
            // skip optional "..." and up to the comma
            while i < b.len() && b[i] != b',' {
                i += 1;
            }
            i += 1;
            cur.clear();
            // mark that we already pushed
            while i < b.len() && b[i] == b' ' {
                i += 1;
            }
            continue;
        }
        if c == b'{' || c == b'[' || c == b'(' {
            depth += 1;
        }
        if c == b'}' || c == b']' || c == b')' {
            depth -= 1;
        }
        if c == b',' && depth == 0 {
            out.push(Arg::Raw(cur.trim().to_string()));
            cur.clear();
            i += 1;
            continue;
        }
        cur.push(c as char);
        i += 1;
    }
    if !cur.trim().is_empty() {
        out.push(Arg::Raw(cur.trim().to_string()));
    }
    out
}

pub fn parse_line(line: &str) -> Option<Rec> {
    // "<pid> name(args) = ret [ERRNO (text)]"
    let line = line.trim_end();
    let sp = line.find(' ')?;
    let pid: u32 = line[..sp].trim().parse().ok()?;
    let rest = line[sp + 1..].trim_start();
    if rest.starts_with("+++") || rest.starts_with("---") || rest.starts_with("<...") {
        return None;
    }
    let par = rest.find('(')?;
    let name = rest[..par].to_string();
    // strace pads short lines: "close(3)        = 0"
    let eq_pos = rest.rfind(" = ")?;
    let close = rest[..eq_pos].rfind(')')?;
    if close < par {
        return None;
    }
    let args_s = &rest[par + 1..close];
    let ret_s = rest[eq_pos + 3..].trim();
    let mut it = ret_s.split_whitespace();
    let first = it.next()?;
    let ret: i64 = if first == "?" {
        0
    } else if let Some(h) = first.strip_prefix("0x") {
        i64::from_str_radix(h, 16).unwrap_or(0)
    } else {
        first.parse().ok()?
    };
    let err = if ret < 0 { it.next().map(|s| s.to_string()) } else { None };
    Some(Rec {
        pid,
        name,
        args: split_args(args_s),
        ret,
        err,
    })
}

pub fn strace_available() -> bool {
    Command::new("strace")
        .arg("-V")
        .output()
        .map(|o| o.status.success())
        .unwrap_or(false)
}

/// Runs `cmd args...` under strace; returns (exit code, stdout, parsed records).
pub fn run_traced(
    trace_file: &Path,
    inject: Option<&str>,
    str_limit: usize,
    cmd: &Path,
    args: &[&str],
) -> std::io::Result<(i32, String, Vec<Rec>)> {
    let mut c = Command::new("strace");
    c.arg("-f")
        .arg("-o")
        .arg(trace_file)
        .arg("-xx")
        .arg("-s")
        .arg(str_limit.to_string())
        .arg("-e")
        .arg(format!("trace={TRACE_SET}"));
    if let Some(i) = inject {
        c.arg("-e").arg(format!("inject={i}"));
    }
    c.arg(cmd);
    for a in args {
        c.arg(a);
    }
    let out = c.output()?;
    let code = out.status.code().unwrap_or(-1);
    let stdout = String::from_utf8_lossy(&out.stdout).into_owned();
    let text = std::fs::read_to_string(trace_file).unwrap_or_default();
    let recs = text.lines().filter_map(parse_line).collect();
    Ok((code, stdout, recs))
}
