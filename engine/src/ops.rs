//! Operation alphabet (serialisable, so every history is a replayable artefact).

use serde::{Deserialize, Serialize};

#[derive(Clone, Copy, Debug, PartialEq, Eq, Hash, Serialize, Deserialize, PartialOrd, Ord)]
pub enum Wm {
    /// watermark 0: no MVCC GC, no version-history trimming
    Zero,
    /// the largest watermark the protocol allows: min(held snapshots) - 1, or SeqNo::MAX
    Tight,
}

#[derive(Clone, Debug, PartialEq, Eq, Hash, Serialize, Deserialize, PartialOrd, Ord)]
pub enum Bnd {
    Unb,
    Inc(Vec<u8>),
    Exc(Vec<u8>),
}

impl Bnd {
    pub fn to_bound(&self) -> std::ops::Bound<Vec<u8>> {
        match self {
            Bnd::Unb => std::ops::Bound::Unbounded,
            Bnd::Inc(k) => std::ops::Bound::Included(k.clone()),
            Bnd::Exc(k) => std::ops::Bound::Excluded(k.clone()),
        }
    }
}

pub fn range_contains(lo: &Bnd, hi: &Bnd, k: &[u8]) -> bool {
    let lo_ok = match lo {
        Bnd::Unb => true,
        Bnd::Inc(x) => k >= x.as_slice(),
        Bnd::Exc(x) => k > x.as_slice(),
    };
    let hi_ok = match hi {
        Bnd::Unb => true,
        Bnd::Inc(x) => k <= x.as_slice(),
        Bnd::Exc(x) => k < x.as_slice(),
    };
    lo_ok && hi_ok
}

#[derive(Clone, Copy, Debug, PartialEq, Eq, Hash, Serialize, Deserialize, PartialOrd, Ord)]
pub enum IKind {
    Val,
    BigVal,
    Tomb,
    WeakTomb,
}

/// Keys are indexes into the scenario's key table.
#[derive(Clone, Debug, PartialEq, Eq, Hash, Serialize, Deserialize, PartialOrd, Ord)]
pub enum Op {
    Put { k: u8, big: bool },
    Del { k: u8 },
    WDel { k: u8 },
    /// several writes under one seqno
    Batch { puts: Vec<u8>, dels: Vec<u8> },
    /// several puts, one seqno each (layout builder)
    MultiPut { ks: Vec<u8> },
    /// two writers, the later one overtakes: seqnos s1 < s2 are allocated for (k1, k2), k2@s2 is
    /// inserted first, then k1@s1, then both are published
    PutSwapped { k1: u8, k2: u8 },
    MultiDel { ks: Vec<u8> },
    /// put + rotate + flush (watermark 0): one table per write
    PutF { k: u8, big: bool },
    /// delete + rotate + flush (watermark 0)
    DelF { k: u8 },
    /// rotate + flush, then leveled compaction
    FlushLeveled { w: Wm, p: u8 },
    /// an ingestion that is written to and then dropped without finish()
    IngestAbandon { items: Vec<(u8, IKind)> },
    /// put / delete with a wide key index (bulk histories)
    PutIdx { k: u32 },
    DelIdx { k: u32 },
    /// several ops as one step (a workload loop such as write; flush; compact)
    Seq { ops: Vec<Op> },
    Rotate,
    /// rotate + flush
    Flush { w: Wm },
    /// flush what is sealed
    FlushSealed { w: Wm },
    Leveled { w: Wm, p: u8 },
    Major { w: Wm, target: u64 },
    MoveDown { from: u8, to: u8, w: Wm },
    PullDown { from: u8, to: u8, w: Wm },
    DropRange { lo: Bnd, hi: Bnd },
    Clear,
    Ingest { items: Vec<(u8, IKind)> },
    /// one ingestion of keys[lo..hi], every value large (separated in a blob tree)
    IngestRange { lo: u32, hi: u32 },
    Fifo { limit: u64, ttl: Option<u64>, w: Wm },
    Tick { secs: u64 },
    TickMs { ms: u64 },
    Snap,
    Unsnap,
    Reopen,
}

#[derive(Clone, Copy, Debug, PartialEq, Eq, Hash)]
pub enum Class {
    Data,
    Maint,
    Snap,
    Reopen,
    /// drop_range / clear / fifo: budgeted separately so that large argument domains stay tractable
    Special,
}

impl Op {
    pub fn class(&self) -> Class {
        if let Op::Seq { ops } = self {
            return ops.first().map_or(Class::Maint, Op::class);
        }
        match self {
            Op::Put { .. }
            | Op::Del { .. }
            | Op::WDel { .. }
            | Op::Batch { .. }
            | Op::MultiPut { .. }
            | Op::PutSwapped { .. }
            | Op::MultiDel { .. }
            | Op::PutIdx { .. }
            | Op::DelIdx { .. }
            | Op::PutF { .. }
            | Op::DelF { .. }
            | Op::IngestAbandon { .. }
            | Op::IngestRange { .. }
            | Op::Ingest { .. } => Class::Data,
            Op::Snap | Op::Unsnap => Class::Snap,
            Op::DropRange { .. } | Op::Clear | Op::Fifo { .. } => Class::Special,
            Op::Reopen => Class::Reopen,
            _ => Class::Maint,
        }
    }

    pub fn name(&self) -> &'static str {
        match self {
            Op::Put { .. } => "Put",
            Op::Del { .. } => "Del",
            Op::WDel { .. } => "WDel",
            Op::Batch { .. } => "Batch",
            Op::MultiPut { .. } => "MultiPut",
            Op::PutSwapped { .. } => "PutSwapped",
            Op::MultiDel { .. } => "MultiDel",
            Op::PutF { .. } => "PutF",
            Op::DelF { .. } => "DelF",
            Op::FlushLeveled { .. } => "FlushLeveled",
            Op::IngestAbandon { .. } => "IngestAbandon",
            Op::PutIdx { .. } => "PutIdx",
            Op::DelIdx { .. } => "DelIdx",
            Op::Seq { .. } => "Seq",
            Op::Rotate => "Rotate",
            Op::Flush { .. } => "Flush",
            Op::FlushSealed { .. } => "FlushSealed",
            Op::Leveled { .. } => "Leveled",
            Op::Major { .. } => "Major",
            Op::MoveDown { .. } => "MoveDown",
            Op::PullDown { .. } => "PullDown",
            Op::DropRange { .. } => "DropRange",
            Op::Clear => "Clear",
            Op::Ingest { .. } => "Ingest",
            Op::IngestRange { .. } => "IngestRange",
            Op::Fifo { .. } => "Fifo",
            Op::Tick { .. } => "Tick",
            Op::TickMs { .. } => "TickMs",
            Op::Snap => "Snap",
            Op::Unsnap => "Unsnap",
            Op::Reopen => "Reopen",
        }
    }

    /// compact rendering for evidence samples
    pub fn short(&self) -> String {
        fn w(w: &Wm) -> &'static str {
            match w {
                Wm::Zero => "0",
                Wm::Tight => "T",
            }
        }
        match self {
            Op::Put { k, big } => format!("P{}({k})", if *big { "big" } else { "" }),
            Op::Del { k } => format!("D({k})"),
            Op::WDel { k } => format!("W({k})"),
            Op::Batch { puts, dels } => format!("B(p{puts:?},d{dels:?})"),
            Op::MultiPut { ks } => format!("MP{ks:?}"),
            Op::PutSwapped { k1, k2 } => format!("Pswap({k1},{k2})"),
            Op::MultiDel { ks } => format!("MD{ks:?}"),
            Op::PutF { k, big } => format!("PF{}({k})", if *big { "big" } else { "" }),
            Op::DelF { k } => format!("DF({k})"),
            Op::FlushLeveled { w: x, p } => format!("FL{p}({})", w(x)),
            Op::IngestAbandon { items } => format!("IngAbandon{items:?}"),
            Op::PutIdx { k } => format!("P#{k}"),
            Op::DelIdx { k } => format!("D#{k}"),
            Op::Seq { ops } if ops.len() > 8 => format!("[{};..{} ops..;{}]", ops[0].short(), ops.len() - 2, ops[ops.len() - 1].short()),
            Op::Seq { ops } => format!("[{}]", ops.iter().map(Op::short).collect::<Vec<_>>().join(";")),
            Op::Rotate => "R".into(),
            Op::Flush { w: x } => format!("Fa({})", w(x)),
            Op::FlushSealed { w: x } => format!("Fs({})", w(x)),
            Op::Leveled { w: x, p } => format!("L{p}({})", w(x)),
            Op::Major { w: x, target } => format!("M({},{target})", w(x)),
            Op::MoveDown { from, to, w: x } => format!("Mv({from}>{to},{})", w(x)),
            Op::PullDown { from, to, w: x } => format!("Pd({from}>{to},{})", w(x)),
            Op::DropRange { lo, hi } => format!("DR({lo:?},{hi:?})"),
            Op::Clear => "Clear".into(),
            Op::Ingest { items } => format!("Ing{items:?}"),
            Op::IngestRange { lo, hi } => format!("IngRange({lo}..{hi})"),
            Op::Fifo { limit, ttl, w: x } => format!("Fifo({limit},{ttl:?},{})", w(x)),
            Op::Tick { secs } => format!("Tick({secs})"),
            Op::TickMs { ms } => format!("Tick({ms}ms)"),
            Op::Snap => "S".into(),
            Op::Unsnap => "U".into(),
            Op::Reopen => "O".into(),
        }
    }
}

pub fn short_hist(ops: &[Op]) -> String {
    ops.iter().map(Op::short).collect::<Vec<_>>().join(" ")
}
