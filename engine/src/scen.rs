//! Scenario definitions for the `hx` engine: alphabet + budgets + oracle per property.

use crate::driver::{Driver, OpInfo, TreeCfg};
use crate::hx::{Budget, PreState, Scenario};
use crate::model::{Kind, Loc};
use crate::ops::{Bnd, IKind, Op, Wm};
use crate::oracles::{self, ReadOpts, Violation};
use lsm_tree::{AbstractTree, SeqNo};

#[derive(Clone, Debug, Default)]
pub struct Alphabet {
    pub put: bool,
    pub put_big: bool,
    pub del: bool,
    /// weak deletes under the single-delete discipline (puts are then also disciplined)
    pub wdel_discipline: bool,
    /// with `wdel_discipline`: the weak delete may also arrive through a one-entry ingestion
    pub wdel_ingest: bool,
    pub batch: bool,
    /// every write is flushed into its own table (PutF / DelF)
    pub put_f: bool,
    pub put_f_big: bool,
    pub del_f: bool,
    pub flush_leveled: Vec<u8>,
    pub abandon_ingests: Vec<Vec<(u8, IKind)>>,
    pub rotate: bool,
    pub flush: bool,
    pub flush_sealed: bool,
    pub leveled: Vec<u8>,
    pub major: Vec<u64>,
    pub movedown: Vec<(u8, u8)>,
    pub pulldown: Vec<(u8, u8)>,
    pub wms: Vec<Wm>,
    pub drop_ranges: Vec<(Bnd, Bnd)>,
    pub clear: bool,
    pub ingests: Vec<Vec<(u8, IKind)>>,
    pub snap: bool,
    /// do not offer Unsnap (keeps the space small where releasing adds nothing)
    pub no_unsnap: bool,
    pub reopen: bool,
    /// FIFO alphabet (C19): append-only puts of the next key, ticks, Fifo(limit, ttl)
    pub pnext: bool,
    /// keys are written in strictly decreasing order instead (FIFO allows both)
    pub pnext_desc: bool,
    pub pnext_big: bool,
    pub ticks_ms: Vec<u64>,
    pub ticks: Vec<u64>,
    pub fifo_ttls: Vec<Option<u64>>,
    /// extra ops that are always offered
    pub extra: Vec<Op>,
    /// extra maintenance ops (listed after the generated ones)
    pub extra_maint: Vec<Op>,
}

impl Alphabet {
    /// the quick tier's alphabet: one watermark (the tight one, plus a watermark-0 flush so that
    /// old versions stay in the history), one variant per kind of maintenance
    pub fn lean() -> Self {
        Self {
            put: true,
            del: true,
            rotate: true,
            flush: true,
            leveled: vec![0],
            major: vec![1],
            movedown: vec![(0, 1)],
            pulldown: vec![(0, 1)],
            wms: vec![Wm::Tight],
            reopen: true,
            extra_maint: vec![Op::Flush { w: Wm::Zero }],
            ..Default::default()
        }
    }

    pub fn core() -> Self {
        Self {
            put: true,
            del: true,
            batch: true,
            rotate: true,
            flush: true,
            flush_sealed: true,
            leveled: vec![0],
            major: vec![1, u64::MAX],
            movedown: vec![(0, 1), (1, 2)],
            pulldown: vec![(0, 1), (1, 6)],
            wms: vec![Wm::Zero, Wm::Tight],
            reopen: true,
            ..Default::default()
        }
    }
}

fn levels_between_empty(d: &Driver, from: u8, to: u8) -> bool {
    let v = d.t().current_version();
    ((from + 1)..to).all(|l| v.level(l as usize).is_none_or(|lv| lv.is_empty()))
}

pub fn leveled_shape(d: &Driver) -> bool {
    let v = d.t().current_version();
    let ok = v.iter_levels().skip(1).all(|l| l.run_count() <= 1);
    ok
}

pub fn enabled_from(a: &Alphabet, d: &Driver, hist: &[Op]) -> Vec<Op> {
    let nk = d.cfg.keys.len() as u8;
    let mut out = vec![];
    // data ops, simplest first
    if a.wdel_discipline {
        for k in 0..nk {
            let key = d.key(k);
            let last = d
                .model
                .writes
                .iter()
                .filter(|w| w.key == key && w.loc != Loc::Lost && w.cleared_at.is_none())
                .max_by_key(|w| w.seqno);
            match last.map(|w| w.kind) {
                None | Some(Kind::WDel) => out.push(Op::Put { k, big: false }),
                Some(Kind::Put) => {
                    out.push(Op::WDel { k });
                    if a.wdel_ingest {
                        out.push(Op::Ingest { items: vec![(k, crate::ops::IKind::WeakTomb)] });
                    }
                }
                Some(Kind::Del) => {}
            }
        }
    } else {
        if a.put {
            for k in 0..nk {
                out.push(Op::Put { k, big: false });
            }
        }
        if a.put_big {
            for k in 0..nk {
                out.push(Op::Put { k, big: true });
            }
        }
        if a.del {
            for k in 0..nk {
                out.push(Op::Del { k });
            }
        }
        if a.batch && nk >= 2 {
            out.push(Op::Batch {
                puts: vec![0],
                dels: vec![1],
            });
        }
    }
    if a.pnext {
        let written = d.model.keys().len();
        if written < d.cfg.keys.len() {
            let k = if a.pnext_desc { (d.cfg.keys.len() - 1 - written) as u8 } else { written as u8 };
            out.push(Op::Put { k, big: false });
            if a.pnext_big {
                out.push(Op::Put { k, big: true });
            }
        }
    }
    if a.put_f {
        for k in 0..nk {
            out.push(Op::PutF { k, big: false });
        }
    }
    if a.put_f_big {
        for k in 0..nk {
            out.push(Op::PutF { k, big: true });
        }
    }
    if a.del_f {
        for k in 0..nk {
            out.push(Op::DelF { k });
        }
    }
    for items in &a.abandon_ingests {
        out.push(Op::IngestAbandon { items: items.clone() });
    }
    for items in &a.ingests {
        out.push(Op::Ingest {
            items: items.clone(),
        });
    }
    out.extend(a.extra.iter().cloned());
    // maintenance
    if a.rotate {
        out.push(Op::Rotate);
    }
    for w in &a.wms {
        if a.flush {
            out.push(Op::Flush { w: *w });
        }
        if a.flush_sealed {
            out.push(Op::FlushSealed { w: *w });
        }
        for p in &a.leveled {
            // usage precondition: the leveled strategy assumes every level >= 1 is one run
            // (only MoveDown onto an overlapping level produces anything else; see DESIGN 8)
            if leveled_shape(d) {
                out.push(Op::Leveled { w: *w, p: *p });
            }
        }
        for p in &a.flush_leveled {
            if leveled_shape(d) {
                out.push(Op::FlushLeveled { w: *w, p: *p });
            }
        }
        for t in &a.major {
            out.push(Op::Major { w: *w, target: *t });
        }
        for (f, t) in &a.movedown {
            if levels_between_empty(d, *f, *t) {
                out.push(Op::MoveDown {
                    from: *f,
                    to: *t,
                    w: *w,
                });
            }
        }
        for (f, t) in &a.pulldown {
            if levels_between_empty(d, *f, *t) {
                out.push(Op::PullDown {
                    from: *f,
                    to: *t,
                    w: *w,
                });
            }
        }
    }
    for t in &a.ticks {
        out.push(Op::Tick { secs: *t });
    }
    for t in &a.ticks_ms {
        out.push(Op::TickMs { ms: *t });
    }
    if !a.fifo_ttls.is_empty() {
        // limits: 0, MAX, and around the cumulative size of the j newest tables (what FIFO counts)
        let hist = lsm_tree::verif_hooks::history(d.inner());
        let cur = &hist.last().unwrap().version;
        let mut tabs: Vec<(u128, u64, u64)> = cur
            .levels
            .iter()
            .flatten()
            .flatten()
            .map(|t| (t.created_at, t.id, t.file_size + t.table.referenced_blob_bytes().unwrap_or(0)))
            .collect();
        tabs.sort();
        tabs.reverse(); // newest first
        let mut limits: Vec<u64> = vec![0, u64::MAX];
        let mut cum = 0u64;
        for (_, _, sz) in &tabs {
            cum += sz;
            limits.extend([cum.saturating_sub(1), cum, cum + 1]);
        }
        limits.sort_unstable();
        limits.dedup();
        for l in limits {
            for ttl in &a.fifo_ttls {
                out.push(Op::Fifo { limit: l, ttl: *ttl, w: Wm::Tight });
            }
        }
    }
    out.extend(a.extra_maint.iter().cloned());
    for (lo, hi) in &a.drop_ranges {
        out.push(Op::DropRange {
            lo: lo.clone(),
            hi: hi.clone(),
        });
    }
    if a.clear {
        out.push(Op::Clear);
    }
    if a.snap {
        if d.snaps.len() < 2 {
            out.push(Op::Snap);
        }
        if !d.snaps.is_empty() && !a.no_unsnap {
            out.push(Op::Unsnap);
        }
    }
    if a.reopen && !matches!(hist.last(), Some(Op::Reopen)) {
        out.push(Op::Reopen);
    }
    // with a tight watermark equal to zero the two watermark variants coincide
    if d.wm(Wm::Tight) == 0 {
        out.retain(|op| !has_wm(op, Wm::Tight) || !a.wms.contains(&Wm::Zero));
    }
    out
}

fn inverted(lo: &Bnd, hi: &Bnd) -> bool {
    match (lo, hi) {
        (Bnd::Inc(a) | Bnd::Exc(a), Bnd::Inc(b) | Bnd::Exc(b)) => a > b,
        _ => false,
    }
}

fn has_wm(op: &Op, w: Wm) -> bool {
    match op {
        Op::Flush { w: x }
        | Op::FlushSealed { w: x }
        | Op::Leveled { w: x, .. }
        | Op::FlushLeveled { w: x, .. }
        | Op::Major { w: x, .. }
        | Op::MoveDown { w: x, .. }
        | Op::PullDown { w: x, .. }
        | Op::Fifo { w: x, .. } => *x == w,
        _ => false,
    }
}

/// Coarse generator alphabet for seeds (start from non-initial states).
pub fn coarse_generators() -> Vec<Vec<Op>> {
    vec![
        vec![Op::MultiPut { ks: vec![0, 1] }, Op::Flush { w: Wm::Zero }], // WA
        vec![Op::MultiDel { ks: vec![0, 1] }, Op::Flush { w: Wm::Zero }], // DA
        vec![Op::Major {
            w: Wm::Zero,
            target: 64,
        }], // Mj
        vec![Op::Leveled { w: Wm::Zero, p: 0 }], // Lv
        vec![Op::Reopen],                      // Op
    ]
}

/// all sequences of generators of length <= n (including the empty one)
pub fn seeds_upto(n: usize) -> Vec<Vec<Op>> {
    let g = coarse_generators();
    let mut out: Vec<Vec<Op>> = vec![vec![]];
    let mut frontier: Vec<(Vec<usize>, Vec<Op>)> = vec![(vec![], vec![])];
    for _ in 0..n {
        let mut next = vec![];
        for (idx, ops) in &frontier {
            for (gi, gops) in g.iter().enumerate() {
                // skip obviously idle seeds: maintenance generators on an empty tree
                if idx.is_empty() && gi >= 1 {
                    continue;
                }
                // reopen twice in a row is the same as once
                if gi == 4 && idx.last() == Some(&4) {
                    continue;
                }
                let mut o = ops.clone();
                o.extend(gops.iter().cloned());
                let mut i = idx.clone();
                i.push(gi);
                out.push(o.clone());
                next.push((i, o));
            }
        }
        frontier = next;
    }
    out
}

/// `seeds_upto(n)` plus layouts whose data already lies in the last level (one run there, and one
/// run there with a newer L0 run on top).
pub fn seeds_with_deep(n: usize) -> Vec<Vec<Op>> {
    let g = coarse_generators();
    let mut out = seeds_upto(n);
    let mut deep: Vec<Op> = g[0].clone();
    deep.extend(g[2].iter().cloned());
    let mut deep2 = deep.clone();
    deep2.extend(g[0].iter().cloned());
    for s in [deep, deep2] {
        if !out.contains(&s) {
            out.push(s);
        }
    }
    out
}

#[derive(Clone, Copy, Debug, PartialEq, Eq)]
pub enum OracleKind {
    C01,
    C02,
    C04,
    C07,
    C13,
    C14,
    C15,
    C17,
    C18,
    C19,
    C20,
}

pub struct Std {
    pub name: String,
    pub cfg: TreeCfg,
    pub alphabet: Alphabet,
    pub budget: Budget,
    pub seeds: Vec<Vec<Op>>,
    pub oracle: OracleKind,
}

impl Scenario for Std {
    fn name(&self) -> String {
        self.name.clone()
    }
    fn cfg(&self) -> TreeCfg {
        self.cfg.clone()
    }
    fn seeds(&self) -> Vec<Vec<Op>> {
        self.seeds.clone()
    }
    fn budget(&self) -> Budget {
        self.budget
    }
    fn enabled(&self, d: &Driver, hist: &[Op]) -> Vec<Op> {
        enabled_from(&self.alphabet, d, hist)
    }

    fn pre(&self, d: &Driver, op: &Op) -> PreState {
        let mut p = PreState::default();
        if self.oracle == OracleKind::C19 {
            if let Op::Fifo { .. } = op {
                let hist = lsm_tree::verif_hooks::history(d.inner());
                let cur = &hist.last().unwrap().version;
                for t in cur.levels.iter().flatten().flatten() {
                    p.tables.push(crate::hx::PreTable {
                        id: t.id,
                        created_at: t.created_at,
                        file_size: t.file_size,
                        blob_bytes: t.table.referenced_blob_bytes().unwrap_or(0),
                        keys: oracles::table_items(&t.table)
                            .map(|v| v.into_iter().map(|i| i.key).collect())
                            .unwrap_or_default(),
                        level: t.level,
                    });
                }
                p.any.insert("disk_space".into(), serde_json::json!(d.t().disk_space()));
            }
        }
        if self.oracle == OracleKind::C04 && matches!(op, Op::Reopen) {
            let hist = lsm_tree::verif_hooks::history(d.inner());
            let last = hist.last().unwrap();
            p.shape = Some(oracles::shape_of(&last.version));
            p.table_count = d.t().table_count();
            p.blob_file_count = d.t().blob_file_count();
            p.highest_persisted = d.t().get_highest_persisted_seqno();
            p.gc_stats = last
                .version
                .gc_stats
                .iter()
                .map(|g| (g.id, g.len, g.bytes, g.on_disk_bytes))
                .collect();
            p.blob_files = last.version.blob_files.iter().map(|b| b.id).collect();
        }
        p
    }

    fn check(
        &self,
        d: &mut Driver,
        pre: &PreState,
        op: Option<&Op>,
        info: &OpInfo,
        out: &mut Vec<Violation>,
    ) {
        match self.oracle {
            OracleKind::C01 => {
                // cold, then warm
                for _ in 0..2 {
                    oracles::check_reads(
                        d,
                        ReadOpts {
                            point: true,
                            at_latest: true,
                            internal: true,
                            ..Default::default()
                        },
                        out,
                    );
                }
            }
            OracleKind::C02 => {
                oracles::check_reads(
                    d,
                    ReadOpts {
                        point: true,
                        scans: true,
                        at_snaps: true,
                        ..Default::default()
                    },
                    out,
                );
            }
            OracleKind::C15 if matches!(op, Some(Op::DropRange { lo, hi }) if inverted(lo, hi)) && info.effective => {
                out.push(oracles::v(
                    "drop-range:inverted-not-noop",
                    format!("{} with an inverted range changed the tree state", op.unwrap().short()),
                ));
            }
            OracleKind::C13 | OracleKind::C14 | OracleKind::C15 => {
                oracles::check_reads(
                    d,
                    ReadOpts {
                        point: true,
                        scans: true,
                        at_latest: true,
                        at_snaps: true,
                        internal: self.oracle == OracleKind::C14,
                    },
                    out,
                );
            }
            OracleKind::C04 => {
                oracles::check_reads(
                    d,
                    ReadOpts {
                        point: true,
                        scans: true,
                        at_latest: true,
                        internal: true,
                        ..Default::default()
                    },
                    out,
                );
                // the tree stays usable: the file name the next table / blob file will get must be free
                // (both writers create their file with create_new, so a taken name fails the next
                // flush, ingestion or compaction with AlreadyExists)
                {
                    let next = d.t().next_table_id();
                    if d.dir.join("tables").join(next.to_string()).exists() {
                        out.push(oracles::v(
                            "ids:next-table-id-taken",
                            format!("the table id counter stands at {next} but tables/{next} exists: the next table to be written cannot be created"),
                        ));
                    }
                    if d.cfg.blob.is_some() {
                        let nb = lsm_tree::verif_hooks::blob_file_id_counter(d.inner());
                        if d.dir.join("blobs").join(nb.to_string()).exists() {
                            out.push(oracles::v(
                                "ids:next-blob-file-id-taken",
                                format!("the blob file id counter stands at {nb} but blobs/{nb} exists: the next blob file cannot be created"),
                            ));
                        }
                    }
                }
                if matches!(op, Some(Op::Reopen)) {
                    let hist = lsm_tree::verif_hooks::history(d.inner());
                    let last = hist.last().unwrap();
                    if let Some(sh) = &pre.shape {
                        let now = oracles::shape_of(&last.version);
                        if *sh != now {
                            out.push(oracles::v(
                                "reopen:shape",
                                format!("level/run/table shape changed across reopen: before {sh:?} after {now:?}"),
                            ));
                        }
                    }
                    let t = d.t();
                    if t.table_count() != pre.table_count {
                        out.push(oracles::v(
                            "reopen:table-count",
                            format!("table_count {} -> {} across reopen", pre.table_count, t.table_count()),
                        ));
                    }
                    if t.blob_file_count() != pre.blob_file_count {
                        out.push(oracles::v(
                            "reopen:blob-file-count",
                            format!("blob_file_count {} -> {} across reopen", pre.blob_file_count, t.blob_file_count()),
                        ));
                    }
                    if t.get_highest_persisted_seqno() != pre.highest_persisted {
                        out.push(oracles::v(
                            "reopen:persisted-seqno",
                            format!(
                                "get_highest_persisted_seqno {:?} -> {:?} across reopen",
                                pre.highest_persisted,
                                t.get_highest_persisted_seqno()
                            ),
                        ));
                    }
                    let gc: Vec<_> = last
                        .version
                        .gc_stats
                        .iter()
                        .map(|g| (g.id, g.len, g.bytes, g.on_disk_bytes))
                        .collect();
                    let gc: Vec<_> = gc.into_iter().filter(|(id, ..)| last.version.blob_files.iter().any(|b| b.id == *id)).collect();
                    let pre_gc: Vec<_> = pre.gc_stats.iter().filter(|(id, ..)| pre.blob_files.contains(id)).cloned().collect();
                    if gc != pre_gc {
                        out.push(oracles::v(
                            "reopen:gc-stats",
                            format!("blob gc stats {pre_gc:?} -> {gc:?} across reopen"),
                        ));
                    }
                    let bf: Vec<_> = last.version.blob_files.iter().map(|b| b.id).collect();
                    if bf != pre.blob_files {
                        out.push(oracles::v(
                            "reopen:blob-files",
                            format!("blob files {:?} -> {bf:?} across reopen", pre.blob_files),
                        ));
                    }
                }
            }
            OracleKind::C17 => {
                for a in &info.filter_anomalies {
                    out.push(oracles::v("filter-anomaly", a.clone()));
                }
                oracles::check_reads(
                    d,
                    ReadOpts {
                        point: true,
                        scans: true,
                        at_latest: true,
                        at_snaps: true,
                        internal: false,
                    },
                    out,
                );
            }
            OracleKind::C19 => {
                oracles::check_reads(
                    d,
                    ReadOpts {
                        point: true,
                        scans: true,
                        at_latest: true,
                        ..Default::default()
                    },
                    out,
                );
                if let Some(Op::Fifo { limit, ttl, .. }) = op {
                    let dropped: Vec<&crate::hx::PreTable> = pre
                        .tables
                        .iter()
                        .filter(|t| info.dropped_tables.contains(&t.id))
                        .collect();
                    let retained: Vec<&crate::hx::PreTable> = pre
                        .tables
                        .iter()
                        .filter(|t| !info.dropped_tables.contains(&t.id))
                        .collect();
                    let now_ns = (d.clock as u128) * 1_000_000_000 + (d.clock_ms as u128) * 1_000_000;
                    let expired = |t: &crate::hx::PreTable| match ttl {
                        Some(s) if *s > 0 => t.created_at + (*s as u128) * 1_000_000_000 <= now_ns,
                        _ => false,
                    };
                    for dt in &dropped {
                        if expired(dt) {
                            continue;
                        }
                        for rt in &retained {
                            if dt.created_at > rt.created_at {
                                out.push(oracles::v(
                                    "fifo:newer-dropped",
                                    format!(
                                        "Fifo(limit {limit}, ttl {ttl:?}) removed table {} (created_at {}) although the older table {} (created_at {}) was retained and the removed one had not expired",
                                        dt.id, dt.created_at, rt.id, rt.created_at
                                    ),
                                ));
                            }
                        }
                    }
                    let size = pre.any.get("disk_space").and_then(|x| x.as_u64()).unwrap_or(0);
                    let any_expired = pre.tables.iter().any(|t| expired(t));
                    if size <= *limit && !any_expired && !dropped.is_empty() {
                        out.push(oracles::v(
                            "fifo:dropped-within-limits",
                            format!(
                                "Fifo(limit {limit}, ttl {ttl:?}) removed tables {:?} although disk_space() = {size} <= limit and nothing had expired",
                                info.dropped_tables
                            ),
                        ));
                    }
                    // a table that is not in L0 must not be touched at all (FIFO only knows L0)
                }
            }
            OracleKind::C07 => oracles::check_c07(d, out),
            OracleKind::C18 => oracles::check_c18(d, out),
            OracleKind::C20 => {
                oracles::check_c20_safety(d, out);
                let no_snaps = d.snaps.is_empty();
                match op {
                    Some(Op::Reopen) => oracles::check_c20_exact(d, "after reopen", out),
                    Some(o) if info.version_changed
                        && info.watermark == Some(SeqNo::MAX)
                        && no_snaps
                        && !d.partial_files_possible =>
                    {
                        oracles::check_c20_exact(
                            d,
                            &format!("after {} with watermark MAX and no snapshot held", o.name()),
                            out,
                        )
                    }
                    _ => {}
                }
            }
        }
    }

    fn outcome(&self, d: &Driver) -> u64 {
        use std::hash::{Hash, Hasher};
        let mut h = std::collections::hash_map::DefaultHasher::new();
        let v = d.t().current_version();
        for l in v.iter_levels() {
            l.run_count().hash(&mut h);
            l.table_count().hash(&mut h);
        }
        for k in &d.cfg.keys {
            oracles::get(d.t(), k, SeqNo::MAX).ok().hash(&mut h);
        }
        d.t().sealed_memtable_count().hash(&mut h);
        h.finish()
    }
}
