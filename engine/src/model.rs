//! Reference model: an ordered multi-version map. Deliberately boring.
//!
//! A write is `(key, seqno, kind, value)`. `read(k, S)` = newest write of `k`
//! with `seqno < S` that the snapshot can still see. Nothing about levels,
//! runs, GC or blob files lives here. Where a write currently lives
//! (`Active | Sealed | Persisted | Lost`) is tracked only so that "what
//! survives a reopen" is also a model answer.

use std::collections::{BTreeMap, BTreeSet};

pub type Key = Vec<u8>;
pub type SeqNo = u64;

#[derive(Clone, Copy, Debug, PartialEq, Eq, Hash)]
pub enum Kind {
    Put,
    Del,
    WDel,
}

#[derive(Clone, Copy, Debug, PartialEq, Eq, Hash)]
pub enum Loc {
    Active,
    Sealed,
    Persisted,
    Lost,
}

#[derive(Clone, Debug)]
pub struct Write {
    pub key: Key,
    pub seqno: SeqNo,
    pub kind: Kind,
    pub value: Vec<u8>,
    pub loc: Loc,
    /// Seqno of the `clear()` version that wiped this write (snapshots above it do not see it).
    pub cleared_at: Option<SeqNo>,
    /// Seqno of a `drop_range` version whose range covered this (persisted) write.
    pub maybe_dropped_at: Option<SeqNo>,
    /// Seqno of a FIFO drop that removed the table holding this write.
    pub fifo_dropped_at: Option<SeqNo>,
    /// Effects of compaction filters on this entry, in order; each applies to snapshots above its seqno.
    pub filtered: Vec<(SeqNo, FilterEffect)>,
}

#[derive(Clone, Debug, PartialEq, Eq)]
pub enum FilterEffect {
    Replace(Vec<u8>),
    Remove,
    /// key becomes unconstrained (RemoveWeak / Destroy on a key with history)
    Unconstrained,
}

/// What the model says a read must return.
#[derive(Clone, Debug, PartialEq, Eq)]
pub enum Expect {
    /// exactly this (None = absent); seqno given when it is determined
    Exact(Option<(Vec<u8>, Option<SeqNo>)>),
    /// absent or any of these values
    AnyOf(BTreeSet<Vec<u8>>),
}

impl Write {
    /// the filter effect a snapshot `s` observes (the last one below it), if any
    pub fn effect_at(&self, s: SeqNo) -> Option<&FilterEffect> {
        self.filtered.iter().filter(|(c, _)| *c < s).map(|(_, e)| e).last()
    }

    /// the value a reader at `s` would get from this entry alone (None = reads as absent)
    pub fn value_at(&self, s: SeqNo) -> Option<Vec<u8>> {
        if self.kind != Kind::Put {
            return None;
        }
        match self.effect_at(s) {
            Some(FilterEffect::Replace(v)) => Some(v.clone()),
            Some(FilterEffect::Remove) => None,
            _ => Some(self.value.clone()),
        }
    }
}

impl Expect {
    pub fn admits(&self, got: &Option<Vec<u8>>) -> bool {
        match self {
            Expect::Exact(e) => e.as_ref().map(|x| &x.0) == got.as_ref(),
            Expect::AnyOf(set) => match got {
                None => true,
                Some(v) => set.contains(v),
            },
        }
    }
    pub fn is_exact(&self) -> bool {
        matches!(self, Expect::Exact(_))
    }
}

#[derive(Clone, Debug, Default)]
pub struct Model {
    /// arrival order
    pub writes: Vec<Write>,
}

impl Model {
    pub fn push(&mut self, key: &[u8], seqno: SeqNo, kind: Kind, value: &[u8], loc: Loc) {
        self.writes.push(Write {
            key: key.to_vec(),
            seqno,
            kind,
            value: value.to_vec(),
            loc,
            cleared_at: None,
            maybe_dropped_at: None,
            fifo_dropped_at: None,
            filtered: vec![],
        });
    }

    pub fn keys(&self) -> BTreeSet<Key> {
        self.writes.iter().map(|w| w.key.clone()).collect()
    }

    /// Writes of `key` a snapshot `s` can still see, newest first.
    fn chain(&self, key: &[u8], s: SeqNo) -> Vec<&Write> {
        let mut v: Vec<&Write> = self
            .writes
            .iter()
            .filter(|w| w.key == key && w.seqno < s && w.loc != Loc::Lost)
            .filter(|w| !w.cleared_at.is_some_and(|c| c < s))
            .filter(|w| !w.fifo_dropped_at.is_some_and(|c| c < s))
            .collect();
        // newest first; equal seqnos (batch / ingest never repeat a key) keep arrival order reversed
        v.sort_by(|a, b| b.seqno.cmp(&a.seqno));
        v
    }

    pub fn read(&self, key: &[u8], s: SeqNo) -> Expect {
        let chain = self.chain(key, s);
        let Some(head) = chain.first() else {
            return Expect::Exact(None);
        };
        let head_effect = head.effect_at(s);
        let unconstrained = head.maybe_dropped_at.is_some_and(|c| c < s)
            || matches!(head_effect, Some(FilterEffect::Unconstrained));
        if unconstrained {
            let mut set = BTreeSet::new();
            for w in &chain {
                if w.kind == Kind::Put {
                    set.insert(w.value.clone());
                    for (_, e) in &w.filtered {
                        if let FilterEffect::Replace(v) = e {
                            set.insert(v.clone());
                        }
                    }
                }
            }
            return Expect::AnyOf(set);
        }
        match head.kind {
            Kind::Put => match head_effect {
                Some(FilterEffect::Replace(v)) => Expect::Exact(Some((v.clone(), Some(head.seqno)))),
                Some(FilterEffect::Remove) => Expect::Exact(None),
                _ => Expect::Exact(Some((head.value.clone(), Some(head.seqno)))),
            },
            Kind::Del | Kind::WDel => Expect::Exact(None),
        }
    }

    /// In-order list of `(key, expectation)` for keys that may be visible at `s`.
    pub fn scan(&self, s: SeqNo) -> BTreeMap<Key, Expect> {
        let mut out = BTreeMap::new();
        for k in self.keys() {
            let e = self.read(&k, s);
            if e != Expect::Exact(None) {
                out.insert(k, e);
            }
        }
        out
    }

    /// Exact visible `(key, value)` list at `s`, or None if some key is unconstrained.
    pub fn scan_exact(&self, s: SeqNo) -> Option<Vec<(Key, Vec<u8>)>> {
        let mut out = vec![];
        for (k, e) in self.scan(s) {
            match e {
                Expect::Exact(Some((v, _))) => out.push((k, v)),
                Expect::Exact(None) => {}
                Expect::AnyOf(_) => return None,
            }
        }
        Some(out)
    }

    // ---- state transitions driven by the harness ----

    pub fn rotate(&mut self) {
        for w in &mut self.writes {
            if w.loc == Loc::Active {
                w.loc = Loc::Sealed;
            }
        }
    }

    pub fn flush_sealed(&mut self) {
        for w in &mut self.writes {
            if w.loc == Loc::Sealed {
                w.loc = Loc::Persisted;
            }
        }
    }

    pub fn reopen(&mut self) {
        for w in &mut self.writes {
            if matches!(w.loc, Loc::Active | Loc::Sealed) {
                w.loc = Loc::Lost;
            }
        }
    }

    pub fn clear(&mut self, at: SeqNo) {
        for w in &mut self.writes {
            if w.cleared_at.is_none() && w.loc != Loc::Lost {
                w.cleared_at = Some(at);
            }
        }
    }

    pub fn drop_range(&mut self, at: SeqNo, contains: impl Fn(&[u8]) -> bool) {
        for w in &mut self.writes {
            if w.loc == Loc::Persisted && w.maybe_dropped_at.is_none() && contains(&w.key) {
                w.maybe_dropped_at = Some(at);
            }
        }
    }

    pub fn has_unflushed(&self) -> bool {
        self.writes
            .iter()
            .any(|w| matches!(w.loc, Loc::Active | Loc::Sealed))
    }

    pub fn max_seqno(&self, pred: impl Fn(&Write) -> bool) -> Option<SeqNo> {
        self.writes.iter().filter(|w| pred(w)).map(|w| w.seqno).max()
    }
}
