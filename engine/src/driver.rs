//! Drives the real tree and the reference model in lock step.

use crate::model::{Kind, Loc, Model};
use crate::ops::{range_contains, IKind, Op, Wm};
use lsm_tree::{
    compaction::{Fifo, Leveled, MoveDown, PullDown},
    config::{
        BlockSizePolicy, BloomConstructionPolicy, FilterPolicy, FilterPolicyEntry,
        HashRatioPolicy, PinningPolicy, RestartIntervalPolicy,
    },
    AbstractTree, AnyTree, Cache, Config, DescriptorTable, KvSeparationOptions, SeqNo,
    SequenceNumberCounter, Tree,
};
use serde::{Deserialize, Serialize};
use std::path::{Path, PathBuf};
use std::sync::Arc;

#[derive(Clone, Debug, Serialize, Deserialize, PartialEq)]
pub struct BlobCfg {
    pub threshold: u32,
    pub file_target: u64,
    pub staleness: f32,
    pub age_cutoff: f32,
}

#[derive(Clone, Copy, Debug, Serialize, Deserialize, PartialEq)]
pub enum FilterKind {
    None,
    Bits(f32),
    Fpr(f32),
}

#[derive(Clone, Debug, Serialize, Deserialize, PartialEq)]
pub struct LeveledParams {
    pub l0_threshold: u8,
    pub target_size: u64,
    pub ratio: f32,
}

#[derive(Clone, Debug, Serialize, Deserialize, PartialEq)]
pub struct TreeCfg {
    pub keys: Vec<Vec<u8>>,
    pub blob: Option<BlobCfg>,
    pub block_size: u32,
    pub restart_interval: u8,
    pub hash_ratio: f32,
    pub index_partitioning: bool,
    pub filter_partitioning: bool,
    pub pin_index: bool,
    pub pin_filter: bool,
    pub filter: FilterKind,
    pub expect_point_read_hits: bool,
    pub cache_bytes: u64,
    pub fd_table: Option<usize>,
    pub leveled: Vec<LeveledParams>,
    /// verdict table for the instrumented compaction filter (C17); index = key index
    #[serde(default)]
    pub filter_verdicts: Option<Vec<crate::cfilter::VerdictSpec>>,
    /// the instrumented filter plays a client that opens a snapshot in the middle of a compaction
    #[serde(default)]
    pub mid_snapshot: bool,
    /// lz4 for data blocks, index blocks and blobs (default: none, as the pinned suite is built)
    #[serde(default)]
    pub lz4: bool,
    /// generated key universe (n keys "{i:08}" padded with 'x' to len bytes) instead of `keys`:
    /// keeps scenarios with megabytes of keys out of the replay files
    #[serde(default)]
    pub gen_keys: Option<(u32, u32)>,
}

impl TreeCfg {
    pub fn small(keys: Vec<Vec<u8>>) -> Self {
        Self {
            keys,
            blob: None,
            block_size: 1,
            restart_interval: 16,
            hash_ratio: 0.0,
            index_partitioning: false,
            filter_partitioning: false,
            pin_index: true,
            pin_filter: true,
            filter: FilterKind::Bits(10.0),
            expect_point_read_hits: false,
            cache_bytes: 16 * 1024 * 1024,
            fd_table: Some(256),
            leveled: vec![
                LeveledParams {
                    l0_threshold: 2,
                    target_size: 64,
                    ratio: 2.0,
                },
                LeveledParams {
                    l0_threshold: 4,
                    target_size: 256,
                    ratio: 10.0,
                },
                // (32-byte table target, ratio 1) every level is always over its target: new levels open above a "full" Lmax and
                // L(k) -> L(k+1) merges are chosen by score (pick_minimal_compaction)
                LeveledParams {
                    l0_threshold: 2,
                    target_size: 32,
                    ratio: 1.0,
                },
            ],
            gen_keys: None,
            filter_verdicts: None,
            mid_snapshot: false,
            lz4: false,
        }
    }

    pub fn with_blob(mut self, threshold: u32) -> Self {
        self.blob = Some(BlobCfg {
            threshold,
            file_target: 64 * 1024 * 1024,
            staleness: 0.25,
            age_cutoff: 0.25,
        });
        self
    }
}

pub fn keys_ab() -> Vec<Vec<u8>> {
    vec![b"a".to_vec(), b"b".to_vec()]
}
pub fn keys_abc() -> Vec<Vec<u8>> {
    vec![b"a".to_vec(), b"b".to_vec(), b"c".to_vec()]
}

/// Shared physical resources (C11 sharing scenarios); None = fresh per open.
#[derive(Clone, Default)]
pub struct Shared {
    pub cache: Option<Arc<Cache>>,
    pub fd_table: Option<Option<Arc<DescriptorTable>>>,
}

pub struct Driver {
    pub dir: PathBuf,
    pub cfg: TreeCfg,
    pub shared: Shared,
    pub tree: Option<AnyTree>,
    pub seqno: SequenceNumberCounter,
    pub visible: SequenceNumberCounter,
    pub model: Model,
    pub snaps: Vec<SeqNo>,
    pub opidx: u64,
    pub clock: u64,
    pub clock_ms: u64,
    pub filter_log: Option<Arc<crate::cfilter::FilterLog>>,
    /// seqnos of version-changing ops done with watermark tight while no snapshot was held
    pub last_op_info: OpInfo,
    pub value_tag: u8,
    /// every op applied so far (lets an oracle replay the history on a twin)
    pub history: Vec<Op>,
    /// an aborted operation (abandoned ingestion) may have left partial files that only the next
    /// recovery owns (C20: such histories are held to the reopen clause only)
    pub partial_files_possible: bool,
}

#[derive(Clone, Debug, Default)]
pub struct OpInfo {
    pub err: Option<String>,
    /// the op changed the tree state (fingerprint differs)
    pub effective: bool,
    /// watermark used, if any
    pub watermark: Option<SeqNo>,
    pub version_changed: bool,
    /// for Ingest: the global seqno assigned
    pub ingest_seqno: Option<SeqNo>,
    /// for Fifo: ids of the tables that left the version
    pub dropped_tables: Vec<u64>,
    /// anomalies seen by the instrumented compaction filter during this op
    pub filter_anomalies: Vec<String>,
    /// number of entries the filter was shown during this op
    pub filter_shown: usize,
}

#[derive(Clone, Debug, PartialEq, Eq, Hash)]
pub struct Fingerprint {
    pub seqno: u64,
    pub visible: u64,
    pub table_ctr: u64,
    pub memtable_ctr: u64,
    pub version_id: u64,
    pub hist_len: usize,
    pub sealed: usize,
    pub active_len: usize,
    pub snaps: Vec<SeqNo>,
    pub clock: u64,
}

impl Drop for Driver {
    fn drop(&mut self) {
        // the compaction-filter factory (owned by the tree's config) holds the log, and the log holds a
        // handle on the tree for its in-filter client: break the cycle or the tree would never be dropped
        if let Some(l) = &self.filter_log {
            *l.tree.lock().unwrap() = None;
        }
    }
}

pub fn small_value(tag: u8, n: u64) -> Vec<u8> {
    format!("{}{:04}", tag as char, n).into_bytes()
}
pub fn big_value(tag: u8, n: u64) -> Vec<u8> {
    format!("{}{:04}xxxxxxxxxxxxxxxxxxx", (tag as char).to_ascii_uppercase(), n).into_bytes()
}

impl Driver {
    pub fn new(dir: &Path, cfg: TreeCfg) -> Result<Self, String> {
        Self::new_shared(dir, cfg, Shared::default())
    }

    pub fn new_shared(dir: &Path, mut cfg: TreeCfg, shared: Shared) -> Result<Self, String> {
        if let (true, Some((n, len))) = (cfg.keys.is_empty(), cfg.gen_keys) {
            cfg.keys = (0..n)
                .map(|i| {
                    let mut k = format!("{i:08}").into_bytes();
                    k.resize((len as usize).max(8), b'x');
                    k
                })
                .collect();
        }
        let filter_log = cfg
            .filter_verdicts
            .as_ref()
            .map(|_| Arc::new(crate::cfilter::FilterLog::default()));
        let mut d = Self {
            dir: dir.to_path_buf(),
            cfg,
            shared,
            tree: None,
            seqno: SequenceNumberCounter::default(),
            visible: SequenceNumberCounter::default(),
            model: Model::default(),
            snaps: vec![],
            opidx: 0,
            clock: 1_000_000,
            clock_ms: 0,
            filter_log,
            last_op_info: OpInfo::default(),
            value_tag: b'v',
            history: vec![],
            partial_files_possible: false,
        };
        d.open()?;
        Ok(d)
    }

    pub fn build_config(&self) -> Config {
        let c = &self.cfg;
        let mut config = Config::new(&self.dir, self.seqno.clone(), self.visible.clone())
            .data_block_size_policy(BlockSizePolicy::all(c.block_size))
            .data_block_restart_interval_policy(RestartIntervalPolicy::all(c.restart_interval))
            .data_block_hash_ratio_policy(HashRatioPolicy::all(c.hash_ratio))
            .index_block_partitioning_policy(PinningPolicy::all(c.index_partitioning))
            .filter_block_partitioning_policy(PinningPolicy::all(c.filter_partitioning))
            .index_block_pinning_policy(PinningPolicy::all(c.pin_index))
            .filter_block_pinning_policy(PinningPolicy::all(c.pin_filter))
            .filter_policy(FilterPolicy::all(match c.filter {
                FilterKind::None => FilterPolicyEntry::None,
                FilterKind::Bits(b) => {
                    FilterPolicyEntry::Bloom(BloomConstructionPolicy::BitsPerKey(b))
                }
                FilterKind::Fpr(f) => {
                    FilterPolicyEntry::Bloom(BloomConstructionPolicy::FalsePositiveRate(f))
                }
            }))
            .expect_point_read_hits(c.expect_point_read_hits)
            .data_block_compression_policy(lsm_tree::config::CompressionPolicy::all(if c.lz4 {
                lsm_tree::CompressionType::Lz4
            } else {
                lsm_tree::CompressionType::None
            }))
            .index_block_compression_policy(lsm_tree::config::CompressionPolicy::all(if c.lz4 {
                lsm_tree::CompressionType::Lz4
            } else {
                lsm_tree::CompressionType::None
            }));

        let cache = self
            .shared
            .cache
            .clone()
            .unwrap_or_else(|| Arc::new(Cache::with_capacity_bytes(c.cache_bytes)));
        config = config.use_cache(cache);

        let fdt = match &self.shared.fd_table {
            Some(x) => x.clone(),
            None => c.fd_table.map(|n| Arc::new(DescriptorTable::new(n))),
        };
        config = config.use_descriptor_table(fdt);

        if let Some(b) = &c.blob {
            config = config.with_kv_separation(Some(
                KvSeparationOptions::default()
                    .separation_threshold(b.threshold)
                    .file_target_size(b.file_target)
                    .staleness_threshold(b.staleness)
                    .age_cutoff(b.age_cutoff)
                    .compression(if c.lz4 { lsm_tree::CompressionType::Lz4 } else { lsm_tree::CompressionType::None }),
            ));
        }

        if let (Some(v), Some(log)) = (&c.filter_verdicts, &self.filter_log) {
            config = config.with_compaction_filter_factory(Some(Arc::new(
                crate::cfilter::Factory::new(
                    c.keys.clone(),
                    v.clone(),
                    log.clone(),
                    if c.mid_snapshot { Some((self.seqno.clone(), self.visible.clone())) } else { None },
                ),
            )));
        }

        config
    }

    pub fn open(&mut self) -> Result<(), String> {
        let cfg = self.build_config();
        let t = cfg.open().map_err(|e| format!("open: {e:?}"))?;
        if let Some(l) = &self.filter_log {
            *l.tree.lock().unwrap() = Some(t.clone());
        }
        self.tree = Some(t);
        Ok(())
    }

    pub fn t(&self) -> &AnyTree {
        self.tree.as_ref().expect("tree open")
    }

    pub fn inner(&self) -> &Tree {
        match self.t() {
            AnyTree::Standard(t) => t,
            AnyTree::Blob(b) => &b.index,
        }
    }

    pub fn key(&self, k: u8) -> &[u8] {
        &self.cfg.keys[k as usize]
    }

    pub fn wm(&self, w: Wm) -> SeqNo {
        match w {
            Wm::Zero => 0,
            Wm::Tight => match self.snaps.iter().min() {
                Some(&m) => m.saturating_sub(1),
                None => SeqNo::MAX,
            },
        }
    }

    pub fn fingerprint(&self) -> Fingerprint {
        let inner = self.inner();
        let hist = lsm_tree::verif_hooks::history(inner);
        let last = hist.last().expect("history non-empty");
        Fingerprint {
            seqno: self.seqno.get(),
            visible: self.visible.get(),
            table_ctr: inner.table_id_counter.get(),
            memtable_ctr: inner.memtable_id_counter.get(),
            version_id: last.version.id,
            hist_len: hist.len(),
            sealed: last.sealed.len(),
            active_len: last.active.len(),
            snaps: self.snaps.clone(),
            clock: self.clock * 1000 + self.clock_ms,
        }
    }

    fn put_one(&mut self, k: u8, big: bool, s: SeqNo) {
        self.opidx += 1;
        let v = if big {
            big_value(self.value_tag, self.opidx)
        } else {
            small_value(self.value_tag, self.opidx)
        };
        let key = self.key(k).to_vec();
        let _ = self.t().insert(key.clone(), v.clone(), s);
        self.model.push(&key, s, Kind::Put, &v, Loc::Active);
    }

    fn del_one(&mut self, k: u8, weak: bool, s: SeqNo) {
        self.opidx += 1;
        let key = self.key(k).to_vec();
        if weak {
            let _ = self.t().remove_weak(key.clone(), s);
            self.model.push(&key, s, Kind::WDel, b"", Loc::Active);
        } else {
            let _ = self.t().remove(key.clone(), s);
            self.model.push(&key, s, Kind::Del, b"", Loc::Active);
        }
    }

    fn flush_all(&mut self, wm: SeqNo) -> Result<(), String> {
        let t = self.tree.as_ref().expect("tree open");
        let lock = t.get_flush_lock();
        t.rotate_memtable();
        self.model.rotate();
        let r = t.flush(&lock, wm);
        drop(lock);
        r.map_err(|e| format!("flush: {e:?}"))?;
        self.model.flush_sealed();
        Ok(())
    }

    fn next_seq(&self) -> SeqNo {
        self.seqno.next()
    }
    fn publish(&self, s: SeqNo) {
        self.visible.fetch_max(s + 1);
    }

    /// Applies one op to the tree and the model. `Err` only for harness-level trouble;
    /// an error returned by the tree is recorded in `last_op_info.err`.
    pub fn apply(&mut self, op: &Op) -> OpInfo {
        let before = self.fingerprint();
        self.history.push(op.clone());
        let mut info = OpInfo::default();
        let log_before = self
            .filter_log
            .as_ref()
            .map_or(0, |l| l.shown.lock().unwrap().len());
        let fifo_before = if matches!(op, Op::Fifo { .. }) {
            Some(self.table_keys())
        } else {
            None
        };
        let res = self.apply_inner(op, &mut info);
        if let Err(e) = res {
            info.err = Some(e);
        }
        if self.filter_log.is_some() {
            // the effects become visible with the version the compaction installed
            // ... and never to a snapshot that was opened while the compaction was still running
            let mid_max = self
                .filter_log
                .as_ref()
                .and_then(|l| l.mid_snaps.lock().unwrap().iter().copied().max())
                .unwrap_or(0);
            let c = lsm_tree::verif_hooks::history(self.inner())
                .last()
                .map_or(before.seqno, |sv| sv.seqno.max(before.seqno))
                .max(mid_max);
            self.absorb_filter_log(log_before, c, &mut info);
            // writes the in-filter client made while the compaction was running
            let mws: Vec<(Vec<u8>, Vec<u8>, u64)> = self
                .filter_log
                .as_ref()
                .map(|l| std::mem::take(&mut *l.mid_writes.lock().unwrap()))
                .unwrap_or_default();
            for (k, v, s) in mws {
                self.model.push(&k, s, Kind::Put, &v, Loc::Active);
            }
            // snapshots the in-filter client opened while the compaction was running
            let mids: Vec<SeqNo> = self
                .filter_log
                .as_ref()
                .map(|l| std::mem::take(&mut *l.mid_snaps.lock().unwrap()))
                .unwrap_or_default();
            for s in mids {
                if self.snaps.len() < 3 && !self.snaps.contains(&s) {
                    self.snaps.push(s);
                }
            }
        }
        if let Some(tk) = fifo_before {
            let now: std::collections::BTreeSet<u64> =
                self.table_keys().into_iter().map(|(id, _)| id).collect();
            for (id, keys) in tk {
                if !now.contains(&id) {
                    info.dropped_tables.push(id);
                    for w in &mut self.model.writes {
                        if w.loc == Loc::Persisted
                            && w.fifo_dropped_at.is_none()
                            && keys.iter().any(|(k, s)| *k == w.key && *s == w.seqno)
                        {
                            w.fifo_dropped_at = Some(before.seqno);
                        }
                    }
                }
            }
        }
        let after = self.fingerprint();
        info.effective = before != after || matches!(op, Op::Reopen);
        info.version_changed = before.version_id != after.version_id;
        self.last_op_info = info.clone();
        info
    }

    fn apply_inner(&mut self, op: &Op, info: &mut OpInfo) -> Result<(), String> {
        {
            match op {
                Op::Put { k, big } => {
                    let s = self.next_seq();
                    self.put_one(*k, *big, s);
                    self.publish(s);
                }
                Op::Del { k } => {
                    let s = self.next_seq();
                    self.del_one(*k, false, s);
                    self.publish(s);
                }
                Op::WDel { k } => {
                    let s = self.next_seq();
                    self.del_one(*k, true, s);
                    self.publish(s);
                }
                Op::Batch { puts, dels } => {
                    let s = self.next_seq();
                    for k in puts {
                        self.put_one(*k, false, s);
                    }
                    for k in dels {
                        self.del_one(*k, false, s);
                    }
                    self.publish(s);
                }
                Op::MultiPut { ks } => {
                    for k in ks {
                        let s = self.next_seq();
                        self.put_one(*k, false, s);
                        self.publish(s);
                    }
                }
                Op::PutSwapped { k1, k2 } => {
                    let s1 = self.next_seq();
                    let s2 = self.next_seq();
                    self.put_one(*k2, false, s2);
                    self.put_one(*k1, false, s1);
                    self.publish(s2);
                }
                Op::MultiDel { ks } => {
                    for k in ks {
                        let s = self.next_seq();
                        self.del_one(*k, false, s);
                        self.publish(s);
                    }
                }
                Op::PutIdx { k } => {
                    let s = self.next_seq();
                    self.opidx += 1;
                    let v = small_value(self.value_tag, self.opidx);
                    let key = self.cfg.keys[*k as usize].clone();
                    let _ = self.t().insert(key.clone(), v.clone(), s);
                    self.model.push(&key, s, Kind::Put, &v, Loc::Active);
                    self.publish(s);
                }
                Op::DelIdx { k } => {
                    let s = self.next_seq();
                    self.opidx += 1;
                    let key = self.cfg.keys[*k as usize].clone();
                    let _ = self.t().remove(key.clone(), s);
                    self.model.push(&key, s, Kind::Del, b"", Loc::Active);
                    self.publish(s);
                }
                Op::Seq { ops } => {
                    for o in ops {
                        self.apply_inner(o, info)?;
                    }
                }
                Op::PutF { k, big } => {
                    let s = self.next_seq();
                    self.put_one(*k, *big, s);
                    self.publish(s);
                    self.flush_all(0)?;
                }
                Op::DelF { k } => {
                    let s = self.next_seq();
                    self.del_one(*k, false, s);
                    self.publish(s);
                    self.flush_all(0)?;
                }
                Op::FlushLeveled { w, p } => {
                    let wm = self.wm(*w);
                    info.watermark = Some(wm);
                    self.flush_all(wm)?;
                    let lp = &self.cfg.leveled[*p as usize];
                    let s = Leveled::default()
                        .with_l0_threshold(lp.l0_threshold)
                        .with_table_target_size(lp.target_size)
                        .with_level_ratio_policy(vec![lp.ratio]);
                    self.t()
                        .compact(Arc::new(s), wm)
                        .map_err(|e| format!("compact(leveled): {e:?}"))?;
                }
                Op::IngestAbandon { items } => {
                    let mut ing = self
                        .tree
                        .as_ref()
                        .expect("tree open")
                        .ingestion()
                        .map_err(|e| format!("ingestion(): {e:?}"))?;
                    for (k, kind) in items {
                        self.opidx += 1;
                        let key = self.cfg.keys[*k as usize].clone();
                        match kind {
                            IKind::Val => ing.write(key, small_value(b'x', self.opidx)),
                            IKind::BigVal => ing.write(key, big_value(b'x', self.opidx)),
                            IKind::Tomb => ing.write_tombstone(key),
                            IKind::WeakTomb => ing.write_weak_tombstone(key),
                        }
                        .map_err(|e| format!("ingest write: {e:?}"))?;
                    }
                    drop(ing);
                    self.partial_files_possible = true;
                }
                Op::Rotate => {
                    self.t().rotate_memtable();
                    self.model.rotate();
                }
                Op::Flush { w } => {
                    let wm = self.wm(*w);
                    info.watermark = Some(wm);
                    let t = self.tree.as_ref().expect("tree open");
                    let lock = t.get_flush_lock();
                    t.rotate_memtable();
                    self.model.rotate();
                    let r = t.flush(&lock, wm);
                    drop(lock);
                    r.map_err(|e| format!("flush: {e:?}"))?;
                    self.model.flush_sealed();
                }
                Op::FlushSealed { w } => {
                    let wm = self.wm(*w);
                    info.watermark = Some(wm);
                    let t = self.tree.as_ref().expect("tree open");
                    let lock = t.get_flush_lock();
                    let r = t.flush(&lock, wm);
                    drop(lock);
                    r.map_err(|e| format!("flush: {e:?}"))?;
                    self.model.flush_sealed();
                }
                Op::Leveled { w, p } => {
                    let wm = self.wm(*w);
                    info.watermark = Some(wm);
                    let lp = &self.cfg.leveled[*p as usize];
                    let s = Leveled::default()
                        .with_l0_threshold(lp.l0_threshold)
                        .with_table_target_size(lp.target_size)
                        .with_level_ratio_policy(vec![lp.ratio]);
                    self.t()
                        .compact(Arc::new(s), wm)
                        .map_err(|e| format!("compact(leveled): {e:?}"))?;
                }
                Op::Major { w, target } => {
                    let wm = self.wm(*w);
                    info.watermark = Some(wm);
                    self.t()
                        .major_compact(*target, wm)
                        .map_err(|e| format!("major_compact: {e:?}"))?;
                }
                Op::MoveDown { from, to, w } => {
                    let wm = self.wm(*w);
                    info.watermark = Some(wm);
                    self.t()
                        .compact(Arc::new(MoveDown(*from, *to)), wm)
                        .map_err(|e| format!("compact(movedown): {e:?}"))?;
                }
                Op::PullDown { from, to, w } => {
                    let wm = self.wm(*w);
                    info.watermark = Some(wm);
                    self.t()
                        .compact(Arc::new(PullDown(*from, *to)), wm)
                        .map_err(|e| format!("compact(pulldown): {e:?}"))?;
                }
                Op::DropRange { lo, hi } => {
                    let c = self.seqno.get();
                    info.watermark = Some(0);
                    self.t()
                        .drop_range::<Vec<u8>, _>((lo.to_bound(), hi.to_bound()))
                        .map_err(|e| format!("drop_range: {e:?}"))?;
                    if self.seqno.get() != c {
                        let (lo, hi) = (lo.clone(), hi.clone());
                        self.model
                            .drop_range(c, move |k| range_contains(&lo, &hi, k));
                    }
                }
                Op::Clear => {
                    let c = self.seqno.get();
                    self.t().clear().map_err(|e| format!("clear: {e:?}"))?;
                    self.model.clear(c);
                }
                Op::Ingest { items } => {
                    let mut vals = vec![];
                    {
                        let mut ing = self
                            .tree
                            .as_ref()
                            .expect("tree open")
                            .ingestion()
                            .map_err(|e| format!("ingestion(): {e:?}"))?;
                        for (k, kind) in items {
                            self.opidx += 1;
                            let key = self.cfg.keys[*k as usize].clone();
                            match kind {
                                IKind::Val | IKind::BigVal => {
                                    let v = if *kind == IKind::BigVal {
                                        big_value(b'i', self.opidx)
                                    } else {
                                        small_value(b'i', self.opidx)
                                    };
                                    ing.write(key.clone(), v.clone())
                                        .map_err(|e| format!("ingest write: {e:?}"))?;
                                    vals.push((key, Kind::Put, v));
                                }
                                IKind::Tomb => {
                                    ing.write_tombstone(key.clone())
                                        .map_err(|e| format!("ingest write_tombstone: {e:?}"))?;
                                    vals.push((key, Kind::Del, vec![]));
                                }
                                IKind::WeakTomb => {
                                    ing.write_weak_tombstone(key.clone()).map_err(|e| {
                                        format!("ingest write_weak_tombstone: {e:?}")
                                    })?;
                                    vals.push((key, Kind::WDel, vec![]));
                                }
                            }
                        }
                        ing.finish().map_err(|e| format!("ingest finish: {e:?}"))?;
                    }
                    if items.is_empty() && self.cfg.blob.is_some() {
                        // the blob tree's ingestion flushes the memtables even when it received nothing
                        self.model.rotate();
                        self.model.flush_sealed();
                    }
                    if !items.is_empty() {
                        self.model.rotate();
                        self.model.flush_sealed();
                        let g = self.seqno.get() - 1;
                        info.ingest_seqno = Some(g);
                        for (key, kind, v) in vals {
                            self.model.push(&key, g, kind, &v, Loc::Persisted);
                        }
                    }
                }
                Op::IngestRange { lo, hi } => {
                    let mut vals = vec![];
                    {
                        let mut ing = self
                            .tree
                            .as_ref()
                            .expect("tree open")
                            .ingestion()
                            .map_err(|e| format!("ingestion(): {e:?}"))?;
                        for k in *lo..*hi {
                            self.opidx += 1;
                            let key = self.cfg.keys[k as usize].clone();
                            let v = big_value(b'i', self.opidx);
                            ing.write(key.clone(), v.clone()).map_err(|e| format!("ingest write: {e:?}"))?;
                            vals.push((key, v));
                        }
                        ing.finish().map_err(|e| format!("ingest finish: {e:?}"))?;
                    }
                    self.model.rotate();
                    self.model.flush_sealed();
                    if hi > lo {
                        let g = self.seqno.get() - 1;
                        info.ingest_seqno = Some(g);
                        for (key, v) in vals {
                            self.model.push(&key, g, Kind::Put, &v, Loc::Persisted);
                        }
                    }
                }
                Op::Fifo { limit, ttl, w } => {
                    let wm = self.wm(*w);
                    info.watermark = Some(wm);
                    self.t()
                        .compact(Arc::new(Fifo::new(*limit, *ttl)), wm)
                        .map_err(|e| format!("compact(fifo): {e:?}"))?;
                }
                Op::Tick { secs } => {
                    self.clock += secs;
                    self.install_clock();
                }
                Op::TickMs { ms } => {
                    self.clock_ms += ms;
                    self.install_clock();
                }
                Op::Snap => {
                    self.snaps.push(self.visible.get());
                }
                Op::Unsnap => {
                    if !self.snaps.is_empty() {
                        self.snaps.remove(0);
                    }
                }
                Op::Reopen => {
                    if let Some(l) = &self.filter_log {
                        *l.tree.lock().unwrap() = None;
                    }
                    self.tree = None;
                    self.partial_files_possible = false;
                    self.model.reopen();
                    self.snaps.clear();
                    self.open()?;
                }
            }
            Ok(())
        }
    }

    /// (table id, [(key, seqno)]) for every table of the current version
    pub fn table_keys(&self) -> Vec<(u64, Vec<(Vec<u8>, SeqNo)>)> {
        let v = self.t().current_version();
        let mut out = vec![];
        for t in v.iter_tables() {
            let mut ks = vec![];
            for it in t.iter().flatten() {
                ks.push((it.key.user_key.to_vec(), it.key.seqno));
            }
            out.push((t.id(), ks));
        }
        out
    }

    /// Applies what the instrumented compaction filter decided during the last op to the model.
    fn absorb_filter_log(&mut self, from: usize, c: SeqNo, info: &mut OpInfo) {
        use crate::cfilter::VerdictSpec;
        use crate::model::FilterEffect;
        let Some(log) = &self.filter_log else { return };
        let shown: Vec<crate::cfilter::Shown> = log.shown.lock().unwrap()[from..].to_vec();
        info.filter_shown = shown.len();
        for sh in shown {
            let val = match &sh.value {
                Ok(v) => v.clone(),
                Err(e) => {
                    info.filter_anomalies
                        .push(format!("filter shown key {:?} but value() failed: {e}", sh.key));
                    continue;
                }
            };
            // identify the write by its (unique) current value
            let idx = self.model.writes.iter().position(|w| {
                w.key == sh.key && w.loc != Loc::Lost && w.value_at(SeqNo::MAX).as_deref() == Some(&val[..])
            });
            let Some(idx) = idx else {
                info.filter_anomalies.push(format!(
                    "filter shown ({:?}, {:?}) which is no live value of the model",
                    sh.key,
                    String::from_utf8_lossy(&val)
                ));
                continue;
            };
            let n_writes = self
                .model
                .writes
                .iter()
                .filter(|w| w.key == sh.key && w.loc != Loc::Lost)
                .count();
            let eff = match sh.verdict {
                VerdictSpec::Keep => None,
                VerdictSpec::Remove => Some(FilterEffect::Remove),
                VerdictSpec::ReplaceSmall | VerdictSpec::ReplaceBig => {
                    Some(FilterEffect::Replace(sh.replacement.clone().unwrap_or_default()))
                }
                VerdictSpec::RemoveWeak | VerdictSpec::Destroy => {
                    if n_writes == 1 {
                        Some(FilterEffect::Remove)
                    } else {
                        Some(FilterEffect::Unconstrained)
                    }
                }
            };
            if let Some(e) = eff {
                self.model.writes[idx].filtered.push((c, e));
            }
        }
    }

    /// Sets the (thread-local) clock override to this driver's clock.
    pub fn install_clock(&self) {
        lsm_tree::verif_hooks::set_now(Some(std::time::Duration::from_millis(self.clock * 1000 + self.clock_ms)));
    }
}
