//! `hx`: bounded exhaustive exploration of operation histories on the real tree.
//!
//! A state is the history that reaches it. Expanding a node = fresh directory, replay the
//! history on the real tree and the model in lock step, evaluate the oracle on the last
//! transition and the final state, enumerate the enabled next ops within the budgets.
//! A last op that left the tree's fingerprint unchanged (no-op) is not expanded further:
//! the same state is reached by the parent with a larger remaining budget.

use crate::driver::{Driver, OpInfo, TreeCfg};
use crate::ops::{short_hist, Class, Op};
use crate::oracles::Violation;
use serde::{Deserialize, Serialize};
use std::collections::{BTreeMap, HashSet};
use std::hash::{Hash, Hasher};
use std::path::{Path, PathBuf};
use std::sync::atomic::{AtomicBool, AtomicU64, AtomicUsize, Ordering};
use std::sync::{Arc, Mutex};
use std::time::Instant;

#[derive(Clone, Copy, Debug, Serialize, Deserialize, PartialEq, Eq)]
pub struct Budget {
    pub data: u8,
    pub maint: u8,
    pub snap: u8,
    pub reopen: u8,
    #[serde(default)]
    pub special: u8,
}

impl Budget {
    pub fn left_after(&self, ops: &[Op]) -> Option<Budget> {
        let mut b = *self;
        for op in ops {
            let slot = match op.class() {
                Class::Data => &mut b.data,
                Class::Maint => &mut b.maint,
                Class::Snap => &mut b.snap,
                Class::Reopen => &mut b.reopen,
                Class::Special => &mut b.special,
            };
            if *slot == 0 {
                return None;
            }
            *slot -= 1;
        }
        Some(b)
    }
}

/// What a scenario must provide.
pub trait Scenario: Send + Sync {
    fn name(&self) -> String;
    fn cfg(&self) -> TreeCfg;
    fn seeds(&self) -> Vec<Vec<Op>>;
    fn budget(&self) -> Budget;
    /// ops offered in this state (budget filtering is done by the explorer)
    fn enabled(&self, d: &Driver, hist: &[Op]) -> Vec<Op>;
    /// capture whatever the oracle needs from the state before the last op
    fn pre(&self, _d: &Driver, _op: &Op) -> PreState {
        PreState::default()
    }
    /// evaluate the oracle after the last op
    fn check(&self, d: &mut Driver, pre: &PreState, op: Option<&Op>, info: &OpInfo, out: &mut Vec<Violation>);
    /// optional hook right after the driver is created (e.g. to build a twin)
    fn make_driver(&self, dir: &Path) -> Result<Driver, String> {
        Driver::new(dir, self.cfg())
    }
    /// class of outcome for the "distinct outcomes" counter
    fn outcome(&self, _d: &Driver) -> u64 {
        0
    }
    /// scenario-specific counters for the evidence file
    fn extra_evidence(&self) -> serde_json::Value {
        serde_json::Value::Null
    }
}

#[derive(Default, Clone)]
pub struct PreState {
    pub shape: Option<crate::oracles::Shape>,
    pub table_count: usize,
    pub blob_file_count: usize,
    pub highest_persisted: Option<u64>,
    pub any: BTreeMap<String, serde_json::Value>,
    pub tables: Vec<PreTable>,
    pub blob_live: BTreeMap<u64, (u64, u64)>,
    pub dead_blob_files: Vec<u64>,
    pub model_latest: BTreeMap<Vec<u8>, crate::model::Expect>,
    pub filter_log_len: usize,
    pub gc_stats: Vec<(u64, usize, u64, u64)>,
    pub blob_files: Vec<u64>,
}

#[derive(Clone, Debug)]
pub struct PreTable {
    pub id: u64,
    pub created_at: u128,
    pub file_size: u64,
    pub blob_bytes: u64,
    pub keys: Vec<Vec<u8>>,
    pub level: usize,
}

#[derive(Clone, Debug, Serialize, Deserialize)]
pub struct Replay {
    pub engine: String,
    pub property: String,
    pub scenario: String,
    pub cfg: TreeCfg,
    pub ops: Vec<Op>,
    pub sig: String,
    pub msg: String,
    pub history: String,
}

#[derive(Clone, Debug)]
pub struct Found {
    pub sig: String,
    pub msg: String,
    pub ops: Vec<Op>,
}

#[derive(Default)]
pub struct Stats {
    pub nodes: AtomicU64,
    pub ops_replayed: AtomicU64,
    pub noop_pruned: AtomicU64,
    pub violating_nodes: AtomicU64,
    pub max_depth: AtomicUsize,
    pub capped: AtomicBool,
}

pub struct RunResult {
    pub scenario: String,
    pub nodes: u64,
    pub ops_replayed: u64,
    pub noop_pruned: u64,
    pub states: u64,
    pub outcomes: u64,
    pub max_depth: usize,
    pub found: Vec<Found>,
    pub op_stats: BTreeMap<String, (u64, u64)>,
    pub samples: Vec<String>,
    pub capped: bool,
    pub wall_s: f64,
    pub seeds: usize,
    /// when capped: every history with fewer fine ops than this was explored
    pub complete_below_depth: Option<usize>,
}

pub fn scratch_root() -> PathBuf {
    let base = if Path::new("/dev/shm").is_dir() {
        PathBuf::from("/dev/shm")
    } else {
        std::env::temp_dir()
    };
    base.join(format!("verif-{}", std::process::id()))
}

pub fn fresh_dir(p: &Path) {
    let _ = std::fs::remove_dir_all(p);
    std::fs::create_dir_all(p).expect("create scratch dir");
}

/// Replays `ops` in a fresh directory and returns the violations of the last step.
pub fn run_history(
    sc: &dyn Scenario,
    dir: &Path,
    ops: &[Op],
    want_children: bool,
) -> (Vec<Violation>, Option<NodeOut>) {
    fresh_dir(dir);
    lsm_tree::verif_hooks::set_now(None);
    let res = std::panic::catch_unwind(std::panic::AssertUnwindSafe(|| {
        let mut out = vec![];
        let mut d = match sc.make_driver(dir) {
            Ok(d) => d,
            Err(e) => {
                out.push(crate::oracles::v("open-err", format!("initial open failed: {e}")));
                return (out, None);
            }
        };
        d.install_clock();
        let n = ops.len();
        let mut last_info = OpInfo::default();
        let mut pre = PreState::default();
        for (i, op) in ops.iter().enumerate() {
            let is_last = i + 1 == n;
            if is_last {
                pre = sc.pre(&d, op);
            }
            let info = d.apply(op);
            if let Some(e) = &info.err {
                if !is_last {
                    // an ancestor already reported this; nothing to add
                    return (out, None);
                }
                out.push(crate::oracles::v(
                    format!("op-err:{}", op.name()),
                    format!("{} returned an error in a fault-free run: {e}", op.short()),
                ));
                return (out, None);
            }
            last_info = info;
        }
        sc.check(&mut d, &pre, ops.last(), &last_info, &mut out);
        let node = if want_children {
            let effective = ops.is_empty() || last_info.effective;
            Some(NodeOut {
                effective,
                children: if effective { sc.enabled(&d, ops) } else { vec![] },
                state_hash: state_hash(&d),
                outcome: sc.outcome(&d),
                last_effective: last_info.effective,
            })
        } else {
            None
        };
        drop(d);
        (out, node)
    }));
    lsm_tree::verif_hooks::set_now(None);
    match res {
        Ok(x) => x,
        Err(p) => {
            let msg = panic_message(&p);
            let short: String = msg.chars().take(80).collect();
            (
                vec![crate::oracles::v(
                    format!("panic:{}", sanitize(&short)),
                    format!("panic while running the history: {msg}"),
                )],
                None,
            )
        }
    }
}

pub fn sanitize(s: &str) -> String {
    // keep the signature stable: drop digits and paths
    s.chars()
        .map(|c| if c.is_ascii_digit() { '#' } else { c })
        .filter(|c| !c.is_control())
        .collect::<String>()
        .replace(' ', "_")
}

pub fn panic_message(p: &Box<dyn std::any::Any + Send>) -> String {
    if let Some(s) = p.downcast_ref::<&str>() {
        (*s).to_string()
    } else if let Some(s) = p.downcast_ref::<String>() {
        s.clone()
    } else {
        "non-string panic".to_string()
    }
}

pub struct NodeOut {
    pub effective: bool,
    pub children: Vec<Op>,
    pub state_hash: u64,
    pub outcome: u64,
    pub last_effective: bool,
}

/// Digest of the physical + logical state (for the distinct-states counter only; never used to prune).
pub fn state_hash(d: &Driver) -> u64 {
    let mut h = std::collections::hash_map::DefaultHasher::new();
    let hist = lsm_tree::verif_hooks::history(d.inner());
    for sv in &hist {
        sv.seqno.hash(&mut h);
        sv.version.id.hash(&mut h);
        for (li, l) in sv.version.levels.iter().enumerate() {
            for (ri, r) in l.iter().enumerate() {
                for t in r {
                    (li, ri, &t.min_key, &t.max_key, t.item_count, t.seqno_min, t.seqno_max, t.global_seqno, t.tombstone_count)
                        .hash(&mut h);
                }
            }
        }
        for b in &sv.version.blob_files {
            (b.id, b.item_count, b.total_uncompressed_bytes).hash(&mut h);
        }
        for g in &sv.version.gc_stats {
            (g.id, g.len, g.bytes).hash(&mut h);
        }
    }
    let last = hist.last().unwrap();
    for it in crate::oracles::memtable_items(&last.active) {
        it.hash(&mut h);
    }
    0xffu8.hash(&mut h);
    for m in &last.sealed {
        for it in crate::oracles::memtable_items(m) {
            it.hash(&mut h);
        }
        0xfeu8.hash(&mut h);
    }
    d.snaps.hash(&mut h);
    d.seqno.get().hash(&mut h);
    d.visible.get().hash(&mut h);
    d.clock.hash(&mut h);
    h.finish()
}

/// Work list: shortest histories first (so a capped run is complete up to a depth) while the
/// frontier is small, newest first once it grows large (bounded memory).
pub struct Frontier {
    by_len: std::collections::BTreeMap<usize, Vec<(usize, Vec<Op>)>>,
    n: usize,
}

impl Frontier {
    pub fn new() -> Self {
        Self { by_len: Default::default(), n: 0 }
    }
    pub fn push(&mut self, item: (usize, Vec<Op>)) {
        // fine ops beyond the seed decide the depth
        let d = item.1.len() - item.0;
        self.by_len.entry(d).or_default().push(item);
        self.n += 1;
    }
    pub fn pop(&mut self) -> Option<(usize, Vec<Op>)> {
        let key = if self.n > 2_000_000 {
            *self.by_len.keys().next_back()?
        } else {
            *self.by_len.keys().next()?
        };
        let v = self.by_len.get_mut(&key)?;
        let it = v.pop();
        if v.is_empty() {
            self.by_len.remove(&key);
        }
        if it.is_some() {
            self.n -= 1;
        }
        it
    }
    pub fn min_depth(&self) -> Option<usize> {
        self.by_len.keys().next().copied()
    }
}

pub struct Limits {
    pub max_nodes: u64,
    pub max_wall_s: f64,
    pub threads: usize,
    /// signatures (exact or `prefix*`) of recorded findings: reported, but they do not stop expansion
    pub known_sigs: Vec<String>,
}

pub fn explore(sc: Arc<dyn Scenario>, limits: &Limits) -> RunResult {
    let start = Instant::now();
    let root = scratch_root().join(sanitize(&sc.name()));
    fresh_dir(&root);

    let stats = Arc::new(Stats::default());
    let stack: Arc<Mutex<Frontier>> = Arc::new(Mutex::new(Frontier::new()));
    let min_unexpanded: Arc<Mutex<Option<usize>>> = Arc::new(Mutex::new(None));
    let inflight = Arc::new(AtomicUsize::new(0));
    let found: Arc<Mutex<Vec<Found>>> = Arc::new(Mutex::new(vec![]));
    let states: Arc<Mutex<HashSet<u64>>> = Arc::new(Mutex::new(HashSet::new()));
    let outcomes: Arc<Mutex<HashSet<u64>>> = Arc::new(Mutex::new(HashSet::new()));
    let op_stats: Arc<Mutex<BTreeMap<String, (u64, u64)>>> = Arc::new(Mutex::new(BTreeMap::new()));
    let samples: Arc<Mutex<Vec<String>>> = Arc::new(Mutex::new(vec![]));

    let seeds = sc.seeds();
    let nseeds = seeds.len();
    {
        let mut st = stack.lock().unwrap();
        // simplest first: the stack is LIFO, so push in reverse
        for s in seeds.into_iter().rev() {
            let n = s.len();
            st.push((n, s));
        }
    }
    let budget = sc.budget();

    let mut handles = vec![];
    for w in 0..limits.threads {
        let sc = sc.clone();
        let stack = stack.clone();
        let min_unexpanded = min_unexpanded.clone();
        let inflight = inflight.clone();
        let found = found.clone();
        let stats = stats.clone();
        let states = states.clone();
        let outcomes = outcomes.clone();
        let op_stats = op_stats.clone();
        let samples = samples.clone();
        let dir = root.join(format!("w{w}"));
        let max_nodes = limits.max_nodes;
        let max_wall = limits.max_wall_s;
        let known_sigs = limits.known_sigs.clone();
        handles.push(std::thread::spawn(move || loop {
            let item = {
                let mut st = stack.lock().unwrap();
                let it = st.pop();
                if it.is_some() {
                    inflight.fetch_add(1, Ordering::SeqCst);
                }
                it
            };
            let Some((seed_len, ops)) = item else {
                if inflight.load(Ordering::SeqCst) == 0 {
                    break;
                }
                std::thread::sleep(std::time::Duration::from_micros(200));
                continue;
            };
            if stats.nodes.load(Ordering::Relaxed) >= max_nodes
                || start.elapsed().as_secs_f64() > max_wall
            {
                stats.capped.store(true, Ordering::Relaxed);
                {
                    let d = ops.len() - seed_len;
                    let mut m = min_unexpanded.lock().unwrap();
                    *m = Some(m.map_or(d, |x| x.min(d)));
                }
                inflight.fetch_sub(1, Ordering::SeqCst);
                continue;
            }
            let (viol, node) = run_history(sc.as_ref(), &dir, &ops, true);
            let n = stats.nodes.fetch_add(1, Ordering::Relaxed);
            stats.ops_replayed.fetch_add(ops.len() as u64, Ordering::Relaxed);
            stats.max_depth.fetch_max(ops.len(), Ordering::Relaxed);
            if n % 997 == 0 {
                let mut s = samples.lock().unwrap();
                if s.len() < 12 {
                    s.push(short_hist(&ops));
                }
            }
            let blocking = viol
                .iter()
                .any(|x| !known_sigs.iter().any(|k| crate::evidence::sig_matches(k, &x.sig)));
            if !viol.is_empty() {
                stats.violating_nodes.fetch_add(1, Ordering::Relaxed);
                let mut f = found.lock().unwrap();
                for vv in viol {
                    f.push(Found {
                        sig: vv.sig,
                        msg: vv.msg,
                        ops: ops.clone(),
                    });
                }
            }
            if let Some(node) = node.filter(|_| !blocking) {
                states.lock().unwrap().insert(node.state_hash);
                outcomes.lock().unwrap().insert(node.outcome);
                if let Some(last) = ops.last() {
                    if ops.len() > seed_len {
                        let mut os = op_stats.lock().unwrap();
                        let e = os.entry(last.name().to_string()).or_insert((0, 0));
                        e.0 += 1;
                        if node.last_effective {
                            e.1 += 1;
                        }
                    }
                }
                if !node.effective {
                    stats.noop_pruned.fetch_add(1, Ordering::Relaxed);
                } else {
                    let fine = &ops[seed_len..];
                    if let Some(left) = budget.left_after(fine) {
                        let mut st = stack.lock().unwrap();
                        for c in node.children.into_iter().rev() {
                            let ok = match c.class() {
                                Class::Data => left.data > 0,
                                Class::Maint => left.maint > 0,
                                Class::Snap => left.snap > 0,
                                Class::Reopen => left.reopen > 0,
                                Class::Special => left.special > 0,
                            };
                            if ok {
                                let mut o = ops.clone();
                                o.push(c);
                                st.push((seed_len, o));
                            }
                        }
                    }
                }
            }
            inflight.fetch_sub(1, Ordering::SeqCst);
        }));
    }
    for h in handles {
        h.join().expect("worker thread");
    }
    let _ = std::fs::remove_dir_all(&root);

    let found = Arc::try_unwrap(found).unwrap().into_inner().unwrap();
    let n_states = states.lock().unwrap().len() as u64;
    let n_outcomes = outcomes.lock().unwrap().len() as u64;
    let op_stats_v = op_stats.lock().unwrap().clone();
    let samples_v = samples.lock().unwrap().clone();
    let complete_below = *min_unexpanded.lock().unwrap();
    RunResult {
        scenario: sc.name(),
        nodes: stats.nodes.load(Ordering::Relaxed),
        ops_replayed: stats.ops_replayed.load(Ordering::Relaxed),
        noop_pruned: stats.noop_pruned.load(Ordering::Relaxed),
        states: n_states,
        outcomes: n_outcomes,
        max_depth: stats.max_depth.load(Ordering::Relaxed),
        found,
        op_stats: op_stats_v,
        samples: samples_v,
        capped: stats.capped.load(Ordering::Relaxed),
        wall_s: start.elapsed().as_secs_f64(),
        seeds: nseeds,
        complete_below_depth: complete_below,
    }
}

/// Keeps, per signature, the shortest violating history.
pub fn minimal_per_sig(found: &[Found]) -> Vec<Found> {
    let mut best: BTreeMap<String, Found> = BTreeMap::new();
    for f in found {
        match best.get(&f.sig) {
            Some(b) if (b.ops.len(), &b.ops) <= (f.ops.len(), &f.ops) => {}
            _ => {
                best.insert(f.sig.clone(), f.clone());
            }
        }
    }
    best.into_values().collect()
}
