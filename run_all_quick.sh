#!/bin/bash
# Runs every quick check once and prints one line per check (development aid).
cd /verif
./check build || exit 2
for p in $(python3 -c "import json;print(' '.join(c['property_id'] for c in json.load(open('MANIFEST.json'))['checks']))"); do
  s=$(date +%s)
  out=$(./target/release/engine check $p ${1:-quick} 2>&1); rc=$?
  e=$(( $(date +%s) - s ))
  echo "$p exit=$rc ${e}s $(echo "$out" | grep -E "^\[(hx|tablemc|corrupt|crash|fault|sched|cfgmc) C.. (quick|thorough)\]" | cut -c1-170)"
  echo "$out" | grep -E "^VIOLATION|^MACHINERY|^\s+sig=" | head -6
done
