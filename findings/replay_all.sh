#!/bin/bash
# Replays every recorded finding against /repo's current working tree.
# fixed-*: must print "no violation on replay" on the repaired tree (and reproduce the defect on the parent of the fix commit).
# known-*: still reproduces (recorded in KNOWN_FINDINGS.txt, not repaired).
cd /verif
for f in /verif/findings/*.json; do
  out=$(./check replay $f 2>&1 | grep -a -E "no violation on replay|^VIOLATION|violation sig=" | head -2 | tr '\n' ' ')
  echo "$(basename $f): ${out:0:200}"
done
