#!/usr/bin/env python3
"""Regenerates /verif/MANIFEST.json from the table below (kept next to the checks so they cannot drift)."""
import json, subprocess

HX_NOTE = ("Trusted base: the reference model (ordered multi-version map, engine/src/model.rs), the harness, "
           "rustc; bounded to the stated alphabets/budgets; single-threaded, fault-free runs on tmpfs.")

CHECKS = {
    # id: (engine, category, technique, text, design_ref, note)
    "C01": ("hx", "model_checking",
            "bounded exhaustive exploration of operation histories on the real tree vs reference map (explicit-state, re-execution)",
            "Every history over {put, delete, batch, rotate, flush, leveled/major/move-down/pull-down compaction with watermark 0 or the largest legal one, reopen} within the per-class budgets, from every seed layout, is replayed on the real Tree; get/contains_key/size_of/get_internal_entry at SeqNo::MAX and the visible seqno must equal the model, cold and warm, under three physical configurations; scenarios include a workload loop, data parked in L5/L6 before a leveled compaction, and 600-entry blocks with a hash index; every scan is also consumed from both ends of one iterator.",
            "7 C01", HX_NOTE),
    "C02": ("hx", "model_checking",
            "bounded exhaustive exploration of operation histories with held snapshots vs reference map",
            "Histories additionally take/release up to two snapshots (including one at seqno 0), clear, drop_range and ingest; after every step every held snapshot's point reads, full scans (both directions), len and is_empty must equal the model's frozen view; watermarks are 0 or min(held)-1; a compaction filter plays a client that opens a snapshot in the middle of a merge; standard and key-value-separated trees.",
            "7 C02", HX_NOTE),
    "C04": ("hx", "model_checking",
            "bounded exhaustive exploration of histories with reopen at every position vs reference map",
            "Reopen is allowed at every position up to 2 (3) times on standard and key-value-separated trees; after it every read equals the model restricted to flushed/ingested writes (value and seqno), table/blob counts, highest persisted seqno, gc stats and the level/run/table shape are unchanged, and the exploration continues writing, flushing and compacting on the reopened tree (any error or id collision is a violation); in every state the file name the next table / blob file will get must be free; scenarios include merges below L0 (newest ids in deep levels) and flushes whose whole content is evicted.",
            "7 C04", HX_NOTE),
    "C05": ("crash", "fault_enumeration",
            "exhaustive crash-point x persistence-outcome enumeration over the strace mutation log, recovery by the real Config::open",
            "One traced run per history yields every create/write/truncate/fsync/rename/unlink/mkdir; after each of them every crash image a POSIX file system may leave (per directory every subset of unsynced entry operations, per file every unsynced write boundary and a torn last write; strict POSIX and ext4-like fsync semantics) is built, de-duplicated, and recovered in a worker process: it must open, read as the state before or after the interrupted op (exactly the state after it once the op had returned), and then (A) accept a major compaction, reopen and read exactly what the recovery read, (B) accept a write, flush and major compaction, reopen and still read the old keys the same.",
            "6.1, 7 C05", "Trusted base: the file-system model (engine/src/crash.rs), self-checked per history by replaying the whole log and comparing with the real directory; strace; the tree directory's own entry in its parent is assumed durable."),
    "C06": ("sched", "model_checking",
            "stateless exploration of thread schedules of the real tree under a controlled scheduler (lock-acquisition scheduling points, real-lock probing), iterative preemption bounding",
            "Scenarios of 3-5 real threads (writer, rotator/flusher, leveled / major compaction, up to three pull-down compactions in flight, drop_range, readers) on a preloaded multi-level tree are executed under every schedule with at most 2 (quick) / 3 (thorough) preemptions: every read and scan at a snapshot the writer has published equals the model of the writer's log, no call errs or panics, no deadlock, all acknowledged writes are present at the end, nothing stays hidden, every version in the history passes the C07 audit, and the tree reopens to exactly the flushed state.",
            "4, 7 C06", "Trusted base: the scheduler (engine/src/sched.rs) and the add-only hook lines before each lock acquisition; sequentially consistent interleavings at those points only; replay of every reported schedule must reproduce it twice."),
    "C07": ("hx", "model_checking",
            "bounded exhaustive exploration of histories with a structural audit of every published version",
            "After every step of every explored history the current version is audited: runs ascending and pairwise disjoint by actual contents and by metadata, read-order precedence of sequence numbers between tables sharing a key, metadata (key range, seqno range, item/tombstone/weak-tombstone counts) equal to a full scan, files exist, and the v<id> file decoded by an independent decoder (plus `current`) equals the published structure.",
            "7 C07", HX_NOTE),
    "C03": ("hx", "model_checking",
            "bounded exhaustive exploration of histories; per distinct physical layout every bound pair x next/next_back interleaving vs reference map",
            "Layouts (memtable only, several L0 runs, multi-table runs, multi-block tables, tombstones, several versions per key; keys 61, 61FF, 61FFFF, 62, FF, FFFF) are collected by the history exploration; for each distinct layout (sequence numbers rank-normalised) and each snapshot every pair of bounds from {unbounded, included, excluded} x {keys, gaps, below, above} is scanned under every next/next_back interleaving (canonical patterns for long results in the quick tier), plus every key prefix, first/last/len/is_empty, key()/size() guards and every overlay memtable over two keys x (tree snapshot, overlay watermark) combinations incl. an overlay read over an older held snapshot.",
            "7 C03", HX_NOTE),
    "C08": ("hx", "model_checking",
            "bounded exhaustive exploration of histories on a BlobTree with a standard-tree twin, the reference map and pointer resolution",
            "The same history is run on a key-value-separated tree and replayed on a standard tree; get/contains_key/size_of/scans/len/guard sizes must be identical at MAX, the visible seqno and every held snapshot, both must equal the model, and every Indirection entry of every table of every version in the history must resolve through that version's blob files to the bytes written for that (key, seqno). Configurations: thresholds 1/16/1000 x blob file target 1/64MiB x staleness 0/0.25/1 x age cutoff 0.25/1, plus relocation scenarios (shared blob files rewritten at once; a relocation that rotates to a new blob file half-way; a file first marked stale and rewritten by a later compaction).",
            "7 C08", HX_NOTE + " Blob/data/index compression none and lz4 (one relocating scenario each)."),
    "C09": ("hx", "model_checking",
            "bounded exhaustive exploration of histories on a BlobTree with recomputation of garbage from a pointer scan",
            "After every step the pointers of all tables are scanned: per blob file gc_stats (len, bytes, on_disk_bytes) must equal item_count/total bytes minus what is still pointed to, stale_blob_bytes must be their sum, each table's linked_blob_files must equal its own pointers, no pointed-to file may be missing from the version or the disk, a file that was dead before a merge commit (or a drop that removed tables) must be gone after it, and the statistics must be unchanged across reopen; thorough adds one 72 MB ingestion whose table writer rotates, followed by drops of either table, a major compaction and reopen.",
            "7 C09", HX_NOTE),
    "C10": ("corrupt", "fault_enumeration",
            "exhaustive single-corruption enumeration (every byte x bit flips / 0x00 / 0xFF / every truncation) with cold reopen in worker processes",
            "Every byte of every file (`current`, v<N>, tables, blob files) of each persisted subject tree is corrupted once; the mutant is opened with fresh caches in a worker process and every read (get/contains/size_of for present and absent keys at every snapshot and MAX, forward/reverse scans, len, first/last, a sub-range) is compared with the pristine answers. Only a silently different answer is a violation; errors, panics, aborts and timeouts are counted as loud failures.",
            "6.3, 7 C10", "Trusted base: the worker protocol, the pristine baseline computed by the same workload code. One corruption per mutant."),
    "C11": ("cfgmc", "model_checking",
            "exhaustive enumeration of the physical-configuration product x fixed histories on the real tree, differential against the default configuration and the reference map",
            "Six layout-rich histories (two L0 tables with snapshots, levels + sealed memtables, ingestion + reopen, blob overwrites with relocation, two bulk histories of 400/700 keys) are run under every configuration of block size x restart interval x hash ratio x index/filter partitioning x index/filter pinning x filter policy x expect_point_read_hits x cache capacity x descriptor table x compression none/lz4 (quick: Hamming distance <= 4 from the default = 2099 configurations, thorough: the full product of 20736); every answer (point reads, forward / reverse scans, scans consumed from both ends, sub-range, prefix, len) must equal the model and the default-configuration run, cold and warm; two and three trees with coinciding table ids share one cache (0 / 4 KiB / 16 MiB) and descriptor table (none / 1 / 256) with interleaved reads, and a second handle is opened on a live directory.",
            "7 C11", HX_NOTE + " The engine builds the crate with its optional lz4 feature so that compression none/lz4 is one of the dimensions."),
    "C12": ("tablemc", "model_checking",
            "bounded exhaustive enumeration of item streams x 324 writer settings x recover variants x probes on the real table::Writer / Table",
            "Every strictly ordered stream of up to 3 entries over a 3x3 key/seqno grid with all four value types and three value-size patterns (quick: up to 2 plus a slice of 3), 4-5 entry two-key streams and an adversarial family are written under every combination of block size, restart interval, hash ratio, index/filter partitioning, partition size and block compression none/lz4, recovered pinned/unpinned with global seqno 0/7 and with/without descriptor table, and read back through metadata, scan, iter (both directions), every bound pair under every next/next_back interleaving and get for every key x seqno.",
            "7 C12", "Trusted base: the stream itself is the specification; harness; bounded stream length."),
    "C13": ("hx", "model_checking",
            "bounded exhaustive exploration of single-delete-disciplined histories vs model with weak delete read as delete",
            "The generator enforces put/weak-delete alternation per key; the model treats remove_weak as remove; all point reads and scans at MAX, the visible seqno and every held snapshot must agree under every interleaving of rotate/flush/compactions/reopen and both watermarks, including a key whose first value already lies in the last level while later weak deletes and values meet in partial merges above it.",
            "7 C13", HX_NOTE),
    "C14": ("hx", "model_checking",
            "bounded exhaustive exploration of histories with ingestions of every batch over two keys vs reference map",
            "Every batch over {a,b} x {absent,value,tombstone} (empty included) is ingested between writes, snapshots, flushes, compactions and reopen; the model stamps the batch with the ingestion's seqno; snapshots taken before see nothing of it, later ones all of it, later writes win, memtable data stays readable, everything survives reopen; also five-key batches inside one data block (scans consumed from both ends) and a key-value-separated tree.",
            "7 C14", HX_NOTE),
    "C15": ("hx", "model_checking",
            "bounded exhaustive exploration of histories with every drop_range bound pair / clear from nine seed layouts vs reference map",
            "From nine layouts over keys a-d (memtable only, one table, one table per key, two runs, tombstone table over values, table + memtable) every drop_range over {unbounded, included, excluded} x {keys, gaps, below, above} (empty and inverted included) or clear is combined with a snapshot before/after, one more write, (thorough) one maintenance op and reopen: keys outside the range and every earlier snapshot are exact, keys inside may only return values written for them, inverted ranges change nothing, clear empties later snapshots only.",
            "7 C15", HX_NOTE),
    "C16": ("fault", "fault_enumeration",
            "every file-system call of every op failed once via strace fault injection, three continuations each (retry / reopen / go on without retry)",
            "For every history and every syscall an op issues (reads included), one run per errno (ENOSPC/EIO) with exactly that call failing: if the op returns Err every read/scan at MAX and at held snapshots must equal what it was before the call, nothing may stay hidden, the op must succeed when repeated, the rest of the history must reach the clean run's states, an immediate reopen must show the state before or after the call, and when the call is not repeated the rest of the history must reach the states of the history without that op (also after a final reopen); an absorbed fault must leave the run equal to the clean run; a panic or abort is a violation.",
            "6.2, 7 C16", "Trusted base: strace inject semantics (the call is not executed and returns the error), syscall ordinals from a clean traced run of the deterministic subject. Single fault per run."),
    "C17": ("hx", "model_checking",
            "bounded exhaustive exploration of histories x verdict functions with an instrumented compaction filter feeding the reference map",
            "Every map {a,b} -> {Keep, Remove, RemoveWeak, ReplaceValue small, ReplaceValue big, Destroy} (quick: every 5th) is installed as compaction filter on standard and blob trees; the filter logs every entry it is shown, the model applies the verdict to exactly that entry (unconstrained for RemoveWeak/Destroy on keys written more than once), and all reads/scans at new and held snapshots must follow; a tombstone shown to the filter or an entry that is no live value is an anomaly.",
            "7 C17", HX_NOTE),
    "C18": ("hx", "model_checking",
            "bounded exhaustive exploration of histories with exact recomputation of the seqno marks from stored items",
            "After every step get_highest_persisted_seqno / get_highest_memtable_seqno / get_highest_seqno are compared with the maximum over a full scan of every table (global seqno included) and every memtable, on standard and blob trees (also without filters / with expect_point_read_hits), with ingestion, clear, drop_range, reopen and an overtaking second writer (lower seqno inserted after a higher one) in the alphabet; plus a 3-thread scenario under the controlled scheduler (every schedule with <= 2 / 3 preemptions): while a flush moves data from memtable to table the marks are never below a write acknowledged before the call.",
            "7 C18", HX_NOTE),
    "C19": ("hx", "model_checking",
            "bounded exhaustive exploration of append-only histories x FIFO (limit, ttl) derived from the current table sizes, with a clock seam",
            "Append-only puts in key order (small/big values), flushes, clock ticks and Fifo(limit, ttl) with limits 0, MAX and +-1 around every cumulative newest-table size and ttl none/0/5/1000 s on standard and blob trees: no removed table may be newer than a retained one unless it expired, nothing is removed within limit and TTL, retained keys read their values (also after reopen), removed keys are gone.",
            "7 C19", HX_NOTE + " The wall clock is overridden through the verif_hooks clock seam."),
    "C20": ("hx", "model_checking",
            "bounded exhaustive exploration of histories with a directory-listing oracle",
            "After every step every file named by any entry of the version history must exist; after a version change made with watermark MAX while no snapshot is held, and after every reopen, the directory must contain exactly the files the current version names; every crash image of the C05 enumeration, once recovered, must hold no table, blob or version file the recovered version does not name; and after every file-system-changing call of every op of the C16 histories failed once (strace fault injection) the tree must reopen (no live file deleted) to a directory holding only what the recovered version names.",
            "7 C20", HX_NOTE + " The crash and failed-operation parts reuse the C05 / C16 engines with a directory-listing oracle."),
}

NOT_YET = {
    "_C03": "check not built yet (hx stage 2: range bounds x next/next_back interleavings) - in progress",
    "_C05": "check not built yet (crash engine) - in progress",
    "_C06": "check not built yet (sched engine) - in progress",
    "_C08": "check not built yet (hx differential blob vs standard) - in progress",
    "_C09": "check not built yet (hx blob gc accounting oracle) - in progress",
    "_C10": "check not built yet (corrupt engine) - in progress",
    "_C11": "check not built yet (configuration product) - in progress",
    "_C12": "check not built yet (tablemc engine) - in progress",
    "_C15": "check not built yet (hx drop_range/clear alphabet) - in progress",
    "_C16": "check not built yet (fault engine) - in progress",
    "_C17": "check not built yet (hx instrumented compaction filter) - in progress",
    "_C19": "check not built yet (hx FIFO alphabet with clock seam) - in progress",
}

def main():
    commits = subprocess.run(["git", "-C", "/repo", "log", "--format=%h %s"], capture_output=True, text=True).stdout.splitlines()
    hook_commits = [c.split()[0] for c in commits if c.split(" ", 1)[1].startswith("verif hooks")]
    checks = []
    for pid, (engine, cat, tech, text, ref, note) in sorted(CHECKS.items()):
        checks.append({
            "property_id": pid,
            "quick_cmd": f"./check {pid} quick",
            "thorough_cmd": f"./check {pid} thorough",
            "evidence_file": f"/verif/evidence/{pid}.json",
            "replay_cmd_template": "./check replay {path}",
            "engine": engine,
            "level_claimed": {"category": cat, "text": text, "design_ref": f"DESIGN.md section {ref}"},
            "level_note": note,
            "technique": tech,
        })
    engines = {}
    for pid, (engine, *_r) in CHECKS.items():
        engines.setdefault(engine, []).append(pid)
    kinds = {
        "hx": "bounded exhaustive explicit-state exploration of operation histories on the real tree against a reference model",
        "sched": "stateless exploration of thread schedules (controlled scheduler at lock acquisitions, preemption-bounded)",
        "crash": "exhaustive crash-point x persistence-outcome enumeration over a syscall log",
        "fault": "every syscall of an operation failed once (strace fault injection)",
        "corrupt": "every byte x bit flip / truncation of every persisted file",
        "tablemc": "bounded exhaustive enumeration of table input streams x writer settings x probes",
    }
    m = {
        "version": 1,
        "setup_cmd": "./check build",
        "hooks": {
            "guard": "cargo feature verif_hooks",
            "enable": "engine/Cargo.toml depends on lsm-tree = { path = \"/repo\", features = [\"verif_hooks\", \"lz4\"] } (lz4 is the crate's own optional feature, enabled so that compression is a configuration dimension); every ./check call rebuilds it from /repo's working tree",
            "baseline_off_cmd": "cd /repo && cargo nextest run --workspace --no-fail-fast --test-threads 8 --offline || cargo test --workspace --no-fail-fast --offline",
            "source_commits": hook_commits,
            "add_only": True,
        },
        "engines": [{"name": e, "path": "engine/src", "serves_properties": sorted(p), "kind_free_text": kinds.get(e, "")} for e, p in sorted(engines.items())],
        "checks": checks,
        "notes": "All checks explore the real crate built from /repo (no abstract model). Exit 0 held / 1 VIOLATION / 2 machinery failure. Known findings: KNOWN_FINDINGS.txt.",
        "not_applicable": [{"property_id": k, "reason": v} for k, v in sorted(NOT_YET.items()) if k not in CHECKS and not k.startswith("_")],
    }
    json.dump(m, open("/verif/MANIFEST.json", "w"), indent=1)
    print("wrote MANIFEST.json with", len(checks), "checks")

if __name__ == "__main__":
    main()
