#!/usr/bin/env python3
"""Regenerates /verif/MANIFEST.json from the table below (kept next to the checks so they cannot drift)."""
import json, subprocess

HX_NOTE = ("Trusted base: the reference model (ordered multi-version map, engine/src/model.rs), the harness, "
           "rustc; bounded to the stated alphabets/budgets; single-threaded, fault-free runs on tmpfs.")

CHECKS = {
    # id: (engine, category, technique, text, design_ref, note)
    "C01": ("hx", "model_checking",
            "bounded exhaustive exploration of operation histories on the real tree vs reference map (explicit-state, re-execution)",
            "Every history over {put, delete, batch, rotate, flush, leveled/major/move-down/pull-down compaction with watermark 0 or the largest legal one, reopen} within the per-class budgets, from every seed layout, is replayed on the real Tree; get/contains_key/size_of/get_internal_entry at SeqNo::MAX and the visible seqno must equal the model, cold and warm, under three physical configurations.",
            "7 C01", HX_NOTE),
    "C02": ("hx", "model_checking",
            "bounded exhaustive exploration of operation histories with held snapshots vs reference map",
            "Histories additionally take/release up to two snapshots (including one at seqno 0), clear, drop_range and ingest; after every step every held snapshot's point reads, full scans (both directions), len and is_empty must equal the model's frozen view; watermarks are 0 or min(held)-1.",
            "7 C02", HX_NOTE),
    "C04": ("hx", "model_checking",
            "bounded exhaustive exploration of histories with reopen at every position vs reference map",
            "Reopen is allowed at every position up to 2 (3) times on standard and key-value-separated trees; after it every read equals the model restricted to flushed/ingested writes (value and seqno), table/blob counts, highest persisted seqno, gc stats and the level/run/table shape are unchanged, and the exploration continues writing, flushing and compacting on the reopened tree (any error or id collision is a violation).",
            "7 C04", HX_NOTE),
    "C07": ("hx", "model_checking",
            "bounded exhaustive exploration of histories with a structural audit of every published version",
            "After every step of every explored history the current version is audited: runs ascending and pairwise disjoint by actual contents and by metadata, read-order precedence of sequence numbers between tables sharing a key, metadata (key range, seqno range, item/tombstone/weak-tombstone counts) equal to a full scan, files exist, and the v<id> file decoded by an independent decoder (plus `current`) equals the published structure.",
            "7 C07", HX_NOTE),
    "C13": ("hx", "model_checking",
            "bounded exhaustive exploration of single-delete-disciplined histories vs model with weak delete read as delete",
            "The generator enforces put/weak-delete alternation per key; the model treats remove_weak as remove; all point reads and scans at MAX, the visible seqno and every held snapshot must agree under every interleaving of rotate/flush/compactions/reopen and both watermarks.",
            "7 C13", HX_NOTE),
    "C14": ("hx", "model_checking",
            "bounded exhaustive exploration of histories with ingestions of every batch over two keys vs reference map",
            "Every batch over {a,b} x {absent,value,tombstone} (empty included) is ingested between writes, snapshots, flushes, compactions and reopen; the model stamps the batch with the ingestion's seqno; snapshots taken before see nothing of it, later ones all of it, later writes win, memtable data stays readable, everything survives reopen.",
            "7 C14", HX_NOTE),
    "C18": ("hx", "model_checking",
            "bounded exhaustive exploration of histories with exact recomputation of the seqno marks from stored items",
            "After every step get_highest_persisted_seqno / get_highest_memtable_seqno / get_highest_seqno are compared with the maximum over a full scan of every table (global seqno included) and every memtable, on standard and blob trees, with ingestion, clear, drop_range and reopen in the alphabet.",
            "7 C18", HX_NOTE),
    "C20": ("hx", "model_checking",
            "bounded exhaustive exploration of histories with a directory-listing oracle",
            "After every step every file named by any entry of the version history must exist; after a version change made with watermark MAX while no snapshot is held, and after every reopen, the directory must contain exactly the files the current version names.",
            "7 C20", HX_NOTE + " Histories with failed operations are not in this check (see C16/C05)."),
}

NOT_YET = {
    "C03": "check not built yet (hx stage 2: range bounds x next/next_back interleavings) - in progress",
    "C05": "check not built yet (crash engine) - in progress",
    "C06": "check not built yet (sched engine) - in progress",
    "C08": "check not built yet (hx differential blob vs standard) - in progress",
    "C09": "check not built yet (hx blob gc accounting oracle) - in progress",
    "C10": "check not built yet (corrupt engine) - in progress",
    "C11": "check not built yet (configuration product) - in progress",
    "C12": "check not built yet (tablemc engine) - in progress",
    "C15": "check not built yet (hx drop_range/clear alphabet) - in progress",
    "C16": "check not built yet (fault engine) - in progress",
    "C17": "check not built yet (hx instrumented compaction filter) - in progress",
    "C19": "check not built yet (hx FIFO alphabet with clock seam) - in progress",
}

def main():
    commits = subprocess.run(["git", "-C", "/repo", "log", "--format=%h %s"], capture_output=True, text=True).stdout.splitlines()
    hook_commits = [c.split()[0] for c in commits if c.split(" ", 1)[1].startswith("verif hooks")]
    checks = []
    for pid, (engine, cat, tech, text, ref, note) in sorted(CHECKS.items()):
        checks.append({
            "property_id": pid,
            "quick_cmd": f"./check {pid} quick",
            "thorough_cmd": f"./check {pid} thorough",
            "evidence_file": f"/verif/evidence/{pid}.json",
            "replay_cmd_template": "./check replay {path}",
            "engine": engine,
            "level_claimed": {"category": cat, "text": text, "design_ref": f"DESIGN.md section {ref}"},
            "level_note": note,
            "technique": tech,
        })
    engines = {}
    for pid, (engine, *_r) in CHECKS.items():
        engines.setdefault(engine, []).append(pid)
    kinds = {
        "hx": "bounded exhaustive explicit-state exploration of operation histories on the real tree against a reference model",
        "sched": "stateless exploration of thread schedules (controlled scheduler at lock acquisitions, preemption-bounded)",
        "crash": "exhaustive crash-point x persistence-outcome enumeration over a syscall log",
        "fault": "every syscall of an operation failed once (strace fault injection)",
        "corrupt": "every byte x bit flip / truncation of every persisted file",
        "tablemc": "bounded exhaustive enumeration of table input streams x writer settings x probes",
    }
    m = {
        "version": 1,
        "setup_cmd": "./check build",
        "hooks": {
            "guard": "cargo feature verif_hooks",
            "enable": "engine/Cargo.toml depends on lsm-tree = { path = \"/repo\", features = [\"verif_hooks\"] }; every ./check call rebuilds it from /repo's working tree",
            "baseline_off_cmd": "cd /repo && cargo nextest run --workspace --no-fail-fast --test-threads 8 --offline || cargo test --workspace --no-fail-fast --offline",
            "source_commits": hook_commits,
            "add_only": True,
        },
        "engines": [{"name": e, "path": "engine/src", "serves_properties": sorted(p), "kind_free_text": kinds.get(e, "")} for e, p in sorted(engines.items())],
        "checks": checks,
        "notes": "All checks explore the real crate built from /repo (no abstract model). Exit 0 held / 1 VIOLATION / 2 machinery failure. Known findings: KNOWN_FINDINGS.txt.",
        "not_applicable": [{"property_id": k, "reason": v} for k, v in sorted(NOT_YET.items()) if k not in CHECKS],
    }
    json.dump(m, open("/verif/MANIFEST.json", "w"), indent=1)
    print("wrote MANIFEST.json with", len(checks), "checks")

if __name__ == "__main__":
    main()
